//! Per-property families (what is generated per tier), evidence writing, self-checks.

use crate::gen::{self, G};
use crate::harness::{self, Body, Case, Family, Fault, RunOpts, Summary};
use crate::rng::Rng;
use crate::world::{CacheMode, Cfg, ScanMode, Step};
use serde_json::json;
use std::time::Instant;

fn world_case(cfg: Cfg, steps: Vec<Step>, fault: Fault) -> Case {
    Case { prop: String::new(), family: String::new(), run: 0, body: Body::World { cfg, steps, fault } }
}

#[allow(dead_code)]
fn cache_for(r: &mut Rng) -> CacheMode {
    match r.below(6) {
        0 => CacheMode::Default,
        1 => CacheMode::Tiny,
        _ => CacheMode::Off,
    }
}

pub struct PropDef {
    pub level: &'static str,
    pub rule: &'static str,
    pub assumptions: Vec<&'static str>,
    pub families: Vec<Family>,
}

fn c01(tier: &str) -> PropDef {
    let quick = tier == "quick";
    let sweep_len = if quick { 3 } else { 4 };
    let seeded = if quick { 30_000 } else { 1_800_000 };
    let large = if quick { 16 } else { 1_800 };
    let families = vec![
        Family {
            name: "sweep",
            count: gen::sweep_count(sweep_len),
            make: Box::new(move |_seed, idx| {
                let (code, len) = gen::sweep_decode(idx, sweep_len);
                let mut g = G::new(idx);
                let steps = gen::sweep_trace(code, len, &mut g);
                world_case(Cfg::basic(7), steps, Fault::None)
            }),
        },
        Family {
            name: "seeded",
            count: seeded,
            make: Box::new(|seed, idx| {
                let mut r = Rng::stream(seed, "C01", idx, "workload");
                let mut g = G::new(idx);
                let (mix, _) = gen::pick_mix(&mut r);
                let n = r.range(5, 60) as usize;
                let steps = gen::writer_history(&mut r, &mut g, n, mix);
                let cfg = Cfg::basic(seed ^ idx);
                world_case(cfg, steps, Fault::None)
            }),
        },
        Family {
            name: "large",
            count: large,
            make: Box::new(|seed, idx| {
                let mut r = Rng::stream(seed, "C01", idx, "large");
                let mut g = G::new(idx);
                let steps = gen::large_history(&mut r, &mut g);
                let mut cfg = Cfg::basic(seed ^ idx);
                cfg.scan = ScanMode::Sampled;
                world_case(cfg, steps, Fault::None)
            }),
        },
    ];
    let mut families = families;
    families.push(Family {
        name: "varint-boundary",
        count: if quick { 60 } else { 9_000 },
        make: Box::new(|seed, idx| {
            let mut r = Rng::stream(seed, "C01", idx, "varint");
            let mut g = G::new(idx);
            let steps = gen::varint_boundary_history(&mut r, &mut g);
            let mut cfg = Cfg::basic(seed ^ idx);
            cfg.scan = ScanMode::Sampled;
            world_case(cfg, steps, Fault::None)
        }),
    });
    PropDef {
        level: "exploration",
        rule: "cases = operation traces on one writer core over SimDisk: (sweep) every trace of length <= L over a 9-letter alphabet {append 0B, append 3B, batch [], batch of 3, clear first, clear last, clear across end, reopen, read-all}; (seeded) PRNG traces of 5-60 steps with swarm-style mixes; (large) batches of 8k-70k blocks crossing bitfield page edges with clears and reopens; (varint-boundary) histories that take the length across 252/253 or 65535/65536 with a non-flushing operation followed by further unflushed operations and a reopen. After every mutating step the whole core is scanned (info, has, get for all indices < length+2; sampled in the large family) against the list model. distinct = distinct trace hash; non-trivial = trace has at least one mutating step and at least one close-and-reopen.",
        assumptions: vec![
            "SimDisk implements the RandomAccess contract exactly as random-access-memory/-disk do (write extends with zeros, read beyond length = OutOfBounds, del to EOF = truncate)",
            "Ed25519/BLAKE2b primitives are trusted",
        ],
        families,
    }
}

fn history_len(r: &mut Rng) -> usize {
    match r.below(10) {
        0..=5 => r.range(2, 6) as usize,
        _ => r.range(6, 14) as usize,
    }
}

/// writer history biased to contain make_read_only with unflushed entries in the log
fn mro_history(r: &mut Rng, g: &mut G) -> Vec<Step> {
    let (mix, _) = gen::pick_mix(r);
    let n = r.range(1, 7) as usize;
    let mut steps = gen::writer_history(r, g, n, mix);
    steps.retain(|s| !matches!(s, Step::MakeReadOnly { .. }));
    // choose the flush phase: 0..3 extra appends after an optional reopen
    if r.chance(1, 2) {
        steps.push(Step::Reopen { n: 0 });
    }
    for _ in 0..r.below(5) {
        let blk = g.blk(r);
        g.len += 1;
        steps.push(Step::Append { n: 0, blk });
    }
    steps.push(Step::MakeReadOnly { n: 0 });
    // keep using the read-only instance: clears and reads run the periodic flush again
    for _ in 0..r.below(6) {
        if g.len > 0 && r.chance(2, 3) {
            let (s, e) = g.clear_range(r);
            steps.push(Step::Clear { n: 0, start: s, end: e.min(g.len + 1) });
        } else {
            steps.push(Step::Get { n: 0, index: g.index(r) });
        }
    }
    match r.below(4) {
        0 => steps.push(Step::MakeReadOnly { n: 0 }),
        1 => {
            steps.push(Step::Reopen { n: 0 });
            steps.push(Step::MakeReadOnly { n: 0 });
        }
        2 => {
            let blk = g.blk(r);
            steps.push(Step::Append { n: 0, blk });
        }
        _ => steps.push(Step::Reopen { n: 0 }),
    }
    steps
}

#[derive(Clone, Copy)]
enum FaultKind {
    Crash { tear: bool, double: bool },
    Io,
}

fn fault_for(kind: FaultKind, node: u8, seed: u64, sample: u32) -> Fault {
    match kind {
        FaultKind::Crash { tear, double } => Fault::CrashAll { node, tear, suffix_seed: seed, double, sample },
        FaultKind::Io => Fault::FailAll { node, suffix_seed: seed },
    }
}

fn fault_families(prop: &'static str, kind: FaultKind, counts: [u64; 6], sweep_len: usize) -> Vec<Family> {
    let [n_sweep, n_writer, n_replica, n_mro, n_large, n_replica_mro] = counts;
    let mut v = vec![];
    if n_sweep > 0 {
        v.push(Family {
            name: "writer-sweep",
            count: gen::sweep_count(sweep_len).min(n_sweep),
            make: Box::new(move |seed, idx| {
                let (code, len) = gen::sweep_decode(idx, sweep_len);
                let mut g = G::new(idx);
                let steps = gen::sweep_trace(code, len, &mut g);
                world_case(Cfg::basic(7), steps, fault_for(kind, 0, seed ^ idx, 0))
            }),
        });
    }
    v.push(Family {
        name: "writer-seeded",
        count: n_writer,
        make: Box::new(move |seed, idx| {
            let mut r = Rng::stream(seed, prop, idx, "workload");
            let mut g = G::new(idx);
            let (mix, _) = gen::pick_mix(&mut r);
            let n = history_len(&mut r);
            let steps = gen::writer_history(&mut r, &mut g, n, mix);
            world_case(Cfg::basic(seed ^ idx), steps, fault_for(kind, 0, r.next(), 0))
        }),
    });
    v.push(Family {
        name: "replica-seeded",
        count: n_replica,
        make: Box::new(move |seed, idx| {
            let mut r = Rng::stream(seed, prop, idx, "replica");
            let mut g = G::new(idx);
            let n = history_len(&mut r);
            let steps = gen::replica_history(&mut r, &mut g, n, 1);
            let mut cfg = Cfg::basic(seed ^ idx);
            cfg.replicas = 1;
            world_case(cfg, steps, fault_for(kind, 1, r.next(), 0))
        }),
    });
    v.push(Family {
        name: "make-read-only",
        count: n_mro,
        make: Box::new(move |seed, idx| {
            let mut r = Rng::stream(seed, prop, idx, "mro");
            let mut g = G::new(idx);
            let steps = mro_history(&mut r, &mut g);
            world_case(Cfg::basic(seed ^ idx), steps, fault_for(kind, 0, r.next(), 0))
        }),
    });
    v.push(Family {
        name: "varint-boundary",
        count: (n_mro / 100).max(4),
        make: Box::new(move |seed, idx| {
            let mut r = Rng::stream(seed, prop, idx, "varint");
            let mut g = G::new(idx);
            let mut steps = gen::varint_boundary_history(&mut r, &mut g);
            // keep to the 253 boundary here (the journal of a 65k fill is enumerated op by op)
            if let Some(Step::Fill { count, .. }) = steps.first() {
                if *count > 1000 {
                    let mut r2 = Rng::stream(seed, prop, idx ^ 0x55, "varint");
                    let mut g2 = G::new(idx);
                    loop {
                        let cand = gen::varint_boundary_history(&mut r2, &mut g2);
                        if matches!(cand.first(), Some(Step::Fill { count, .. }) if *count < 1000) {
                            steps = cand;
                            break;
                        }
                        g2 = G::new(idx);
                    }
                }
            }
            let mut cfg = Cfg::basic(seed ^ idx);
            cfg.scan = ScanMode::Sampled;
            world_case(cfg, steps, fault_for(kind, 0, r.next(), 96))
        }),
    });
    if matches!(kind, FaultKind::Io) {
        v.push(Family {
            name: "writer-serving-proofs",
            count: (n_replica / 2).max(20),
            make: Box::new(move |seed, idx| {
                // the faulted node is the WRITER while it serves proofs (create_proof reads) and grows
                let mut r = Rng::stream(seed, prop, idx, "serving");
                let mut g = G::new(idx);
                let n = history_len(&mut r);
                let steps = gen::replica_history(&mut r, &mut g, n, 1);
                let mut cfg = Cfg::basic(seed ^ idx);
                cfg.replicas = 1;
                world_case(cfg, steps, fault_for(kind, 0, r.next(), 0))
            }),
        });
    }
    if n_replica_mro > 0 {
        v.push(Family {
            name: "replica-make-read-only",
            count: n_replica_mro,
            make: Box::new(move |seed, idx| {
                let mut r = Rng::stream(seed, prop, idx, "replica-mro");
                let mut g = G::new(idx);
                let n = r.range(1, 5) as usize;
                let mut steps = gen::replica_history(&mut r, &mut g, n, 1);
                steps.push(Step::MakeReadOnly { n: 1 });
                steps.push(Step::Reopen { n: 1 });
                let mut cfg = Cfg::basic(seed ^ idx);
                cfg.replicas = 1;
                world_case(cfg, steps, fault_for(kind, 1, r.next(), 0))
            }),
        });
    }
    if n_large > 0 {
        v.push(Family {
            name: "large-sampled",
            count: n_large,
            make: Box::new(move |seed, idx| {
                let mut r = Rng::stream(seed, prop, idx, "large");
                let mut g = G::new(idx);
                let mut steps = gen::large_history(&mut r, &mut g);
                steps.truncate(5);
                let mut cfg = Cfg::basic(seed ^ idx);
                cfg.scan = ScanMode::Sampled;
                world_case(cfg, steps, fault_for(kind, 0, r.next(), 48))
            }),
        });
    }
    v
}

const CRASH_ASSUME: [&str; 3] = [
    "each storage operation is atomic and persisted in issue order (what the disk backend gives with its default per-operation sync_all); SimDisk therefore never reorders or drops acknowledged operations",
    "torn writes are byte prefixes of the write in progress",
    "SimDisk implements the RandomAccess contract exactly as the stock backends do",
];

fn multi_crash_family(quick: bool) -> Family {
    Family {
        name: "multi-crash",
        count: if quick { 6000 } else { 600_000 },
        make: Box::new(|seed, idx| {
            // several crashes in one history, each losing a suffix of the storage operations of
            // the call in progress (e.g. the oplog truncate after a header write, repeatedly)
            let mut r = Rng::stream(seed, "C02", idx, "multi-crash");
            let mut g = G::new(idx);
            let n = r.range(3, 14) as usize;
            let steps = gen::multi_crash_history(&mut r, &mut g, n);
            let mut cfg = Cfg::basic(seed ^ idx);
            cfg.retag_as = Some("C02.multi".into());
            world_case(cfg, steps, Fault::None)
        }),
    }
}

fn c02(tier: &str) -> PropDef {
    let quick = tier == "quick";
    let counts = if quick { [819, 6000, 3000, 1500, 2, 0] } else { [7_380, 450_000, 240_000, 90_000, 180, 0] };
    PropDef {
        level: "fault_enumeration",
        rule: "case = one history (writer: sweep over the 9-letter alphabet and seeded 2-14 step traces incl. reopen and make_read_only; replica: honest proof applications with reopen steps) executed fault-free on a journalling SimDisk; then EVERY prefix of its mutating-storage-op journal is materialised, reopened with open(true) and fully scanned (length, byte_length, writeable, has/get of every index) and must equal the model snapshot before or after the interrupted call (strictly 'before' when no op of the call was persisted). A seeded third of the recovered cores then runs a 3-5 step suffix (with a reopen) under the C01 oracle; the thorough tier crashes a second time inside that suffix. Family multi-crash: writer histories in which the process dies repeatedly, each time losing the last 0-6 storage operations of the call in progress (recovery must be before-or-after each time and every later operation, reopen and full scan must satisfy the list model). distinct = distinct (history) hash; non-trivial = history with at least one mutating step (every one of them gets all its crash points).",
        assumptions: CRASH_ASSUME.to_vec(),
        families: {
            let mut f = fault_families("C02", FaultKind::Crash { tear: false, double: !quick }, counts, if quick { 3 } else { 4 });
            f.push(multi_crash_family(quick));
            f
        },
    }
}

fn c07(tier: &str) -> PropDef {
    let quick = tier == "quick";
    let counts = if quick { [819, 2500, 1500, 800, 0, 0] } else { [7_380, 120_000, 60_000, 30_000, 0, 0] };
    PropDef {
        level: "fault_enumeration",
        rule: "same histories and oracle as C02, but at every crash point whose next journal op is a write of n bytes only a byte prefix j of it reaches the store: all j in 1..n-1 for n <= 64, otherwise j in {1,3,4,7,8,9,10,12,16,40..44,72..76,108..110, n-1,n-2,n-4,n-8,n-9,n-32,n-33,n-64,n-65, multiples of 512} plus 8 seeded cuts. Tearing lands over existing bytes (header slots are overwritten in place). distinct/non-trivial as for C02.",
        assumptions: CRASH_ASSUME.to_vec(),
        families: fault_families("C07", FaultKind::Crash { tear: true, double: false }, counts, if quick { 3 } else { 4 }),
    }
}

fn c10(tier: &str) -> PropDef {
    let quick = tier == "quick";
    let counts = if quick { [819, 2000, 1200, 500, 0, 0] } else { [7_380, 120_000, 60_000, 24_000, 0, 0] };
    PropDef {
        level: "fault_enumeration",
        rule: "case = one history (as C02) with N storage operations in total on the subject's SimDisk (reads and length queries included; family writer-serving-proofs faults the writer while it serves create_proof requests); it is re-executed N times, each time with one injected I/O error (EIO) at storage op index k = 0..N-1. The public call that issued op k must return Err (not Ok, no panic, no hang); then the instance is dropped, the same storage reopened fault-free and fully scanned: the state must equal the model before or after that call; half of the recoveries then run a 3-5 step suffix under the C01 oracle. distinct/non-trivial as for C02.",
        assumptions: vec![
            "a failing storage operation has no effect on the store (the error is returned before anything is written)",
            "SimDisk implements the RandomAccess contract exactly as the stock backends do",
        ],
        families: fault_families("C10", FaultKind::Io, counts, if quick { 3 } else { 4 }),
    }
}

fn c03(tier: &str) -> PropDef {
    let quick = tier == "quick";
    let strict = if quick { 30_000 } else { 1_800_000 };
    let big = if quick { 300 } else { 24_000 };
    let families = vec![
        Family {
            name: "strict",
            count: strict,
            make: Box::new(|seed, idx| {
                let mut r = Rng::stream(seed, "C03", idx, "strict");
                let mut g = G::new(idx);
                let replicas = r.range(1, 3) as u8;
                let n = r.range(4, 40) as usize;
                let steps = gen::replica_history(&mut r, &mut g, n, replicas);
                let mut cfg = Cfg::basic(seed ^ idx);
                cfg.replicas = replicas;
                world_case(cfg, steps, Fault::None)
            }),
        },
        Family {
            name: "strict-long-log",
            count: big,
            make: Box::new(|seed, idx| {
                let mut r = Rng::stream(seed, "C03", idx, "long");
                let mut g = G::new(idx);
                let mut steps = vec![];
                // several growth rounds on logs of up to 300 blocks
                for _round in 0..r.range(1, 3) {
                    let c = r.range(20, 120) as u32;
                    steps.push(Step::Fill { n: 0, count: c, size: r.range(0, 9) as u32, tag0: g.next_tag });
                    g.next_tag += c;
                    g.len += c as u64;
                    if r.chance(1, 3) {
                        let (s, e) = g.clear_range(&mut r);
                        steps.push(Step::Clear { n: 0, start: s, end: e.min(g.len) });
                    }
                    for _ in 0..r.range(5, 30) {
                        match r.below(12) {
                            0 => steps.push(Step::Reopen { n: 1 }),
                            _ => steps.push(Step::Sync { to: 1, req: gen::rand_req(&mut r) }),
                        }
                    }
                }
                let mut cfg = Cfg::basic(seed ^ idx);
                cfg.replicas = 1;
                world_case(cfg, steps, Fault::None)
            }),
        },
    ];
    let mut families = families;
    families.push(Family {
        name: "faulty-network",
        count: if quick { 10_000 } else { 750_000 },
        make: Box::new(|seed, idx| {
            let mut r = Rng::stream(seed, "C03", idx, "network");
            let mut g = G::new(idx);
            let replicas = r.range(1, 3) as u8;
            let n_req = r.range(5, 60) as u32;
            let steps = crate::net::gen_faulty(&mut r, &mut g, replicas, n_req);
            let mut cfg = Cfg::basic(seed ^ idx);
            cfg.replicas = replicas;
            cfg.scan = ScanMode::None; // every delivery scans the replica
            world_case(cfg, steps, Fault::None)
        }),
    });
    families.push(Family {
        name: "hash-straddle-probe",
        count: if quick { 300 } else { 18_000 },
        make: Box::new(|seed, idx| {
            // honest hash requests whose span straddles the replica's length (= upgrade.start)
            let mut r = Rng::stream(seed, "C03", idx, "straddle");
            let mut g = G::new(idx);
            let n = r.range(4, 20) as usize;
            let mut steps = gen::replica_history(&mut r, &mut g, n, 1);
            for s in steps.iter_mut() {
                if let Step::Sync { req, .. } = s {
                    if req.hash.is_some() {
                        req.straddle = true;
                    }
                }
            }
            for _ in 0..4 {
                let blk = g.blk(&mut r);
                g.len += 1;
                steps.push(Step::Append { n: 0, blk });
                steps.push(Step::Sync { to: 1, req: crate::world::Req { hash: Some(r.next() >> 8), upgrade: Some(r.next() >> 8), straddle: true, ..Default::default() } });
            }
            let mut cfg = Cfg::basic(seed ^ idx);
            cfg.replicas = 1;
            world_case(cfg, steps, Fault::None)
        }),
    });
    PropDef {
        level: "exploration",
        rule: "strict arm: one writer and 1-3 replicas on a fault-free transport with one outstanding request; each Sync step derives a well-formed request from the replica's CURRENT state (block or tree-node hash that exists on the writer, node count from the replica's own missing_nodes, upgrade from the replica's length when required or drawn, seek in the admitted combinations with the byte offset inside the proven subtree), the writer creates the proof, the replica must accept it (Ok(true)) and afterwards every held block must equal the writer's and (length, byte_length) must equal the writer's at proof creation; a cleared block must yield Ok(None). Replica reopen steps are interleaved. faulty arm: a discrete-event network simulator (seeded latency/jitter, drop 0-30%, duplicate 0-20%, reorder by independent latencies, per-replica partition windows, replica crash-restart losing 0-5 storage ops of its last call, writer restart, writer growth and clears in between) generates an explicit schedule of send/serve/deliver events; stale or duplicated proofs may be refused but after every delivery the replica is scanned and must be truthful; once faults stop every replica must hold every non-cleared block within 3*missing+10 honest request rounds. distinct = distinct trace hash; non-trivial = at least one mutating step and one reopen/crash-restart/network fault.",
        assumptions: vec![
            "the replicator deciding which request to send is harness code (stub of hypercore-protocol); messages travel as structured values, not bytes",
            "Ed25519/BLAKE2b primitives are trusted",
        ],
        families,
    }
}

fn c04(tier: &str) -> PropDef {
    let quick = tier == "quick";
    let families = vec![
        Family {
            name: "seeded-alterations",
            count: if quick { 25_000 } else { 1_500_000 },
            make: Box::new(|seed, idx| {
                let mut r = Rng::stream(seed, "C04", idx, "tamper");
                let mut g = G::new(idx);
                let replicas = r.range(1, 2) as u8;
                let n = r.range(4, 30) as usize;
                let steps = gen::tamper_history(&mut r, &mut g, n, replicas, false);
                let mut cfg = Cfg::basic(seed ^ idx);
                cfg.replicas = replicas;
                cfg.scan = ScanMode::None; // do_tamper scans after every offered alteration
                world_case(cfg, steps, Fault::None)
            }),
        },
        Family {
            name: "full-alteration-set",
            count: if quick { 12_000 } else { 900_000 },
            make: Box::new(|seed, idx| {
                let mut r = Rng::stream(seed, "C04", idx, "tamper-all");
                let mut g = G::new(idx);
                let n = r.range(3, 16) as usize;
                let steps = gen::tamper_history(&mut r, &mut g, n, 1, true);
                let mut cfg = Cfg::basic(seed ^ idx);
                cfg.replicas = 1;
                cfg.scan = ScanMode::None;
                world_case(cfg, steps, Fault::None)
            }),
        },
    ];
    PropDef {
        level: "exploration",
        rule: "replica states reached by honest replication (as C03 strict arm); before an honest proof is delivered, altered variants of it are offered to the replica: (seeded) one random single-field alteration or forgery; (full) the whole systematic set for that proof: bit flips in value / every node hash / signature, +-1 (and +2) on fork, indices, sizes, start, length, seek bytes, node drop/duplicate/swap/insert per section, section removal, section addition (forged block section next to a hash section, re-used hash section, forged seek section), substituted block (same and different length), signature by another key over the true signable, the writer's signature for another length, signature length 0/63/65, and a whole self-consistent proof of the same shape from a different writer. Excluded as the property states: the size field of the bottom node of a hash-only or seek section. Oracle: refused => storage bytes and all observations unchanged; accepted => (length, byte_length) is a state the writer signed and every held block equals the writer's; the honest proof that follows is still accepted. distinct = trace hash; non-trivial = has a mutating step and a reopen.",
        assumptions: vec!["Ed25519/BLAKE2b primitives are trusted", "numeric fields stay below 2^40"],
        families,
    }
}

fn c09(tier: &str) -> PropDef {
    let quick = tier == "quick";
    let families = vec![Family {
        name: "byzantine",
        count: if quick { 60_000 } else { 6_000_000 },
        make: Box::new(|seed, idx| {
            let mut r = Rng::stream(seed, "C09", idx, "byz");
            let mut g = G::new(idx);
            let n = r.range(10, 50) as usize;
            let steps = gen::byzantine_history(&mut r, &mut g, n);
            let mut cfg = Cfg::basic(seed ^ idx);
            cfg.replicas = 1;
            cfg.scan = ScanMode::None;
            world_case(cfg, steps, Fault::None)
        }),
    }];
    PropDef {
        level: "exploration",
        rule: "cores that are empty, single-root, multi-root, with cleared blocks, writer and partially synced replica; a byzantine peer issues create_proof requests with each of block/hash/seek/upgrade absent or with fields from {0,1,2,len-1,len,len+1,2len-1,2len,2len+1,2^20,2^32,2^40-1} and node counts {0,1,2,3,64}, offers structurally arbitrary proofs (random node lists with true/random/zero/short hashes, zero-length upgrades, empty sections, valid/random/empty/short signatures) and the C04 alterations; every call runs under catch_unwind, a poll budget and a wall-clock watchdog. Oracle: the call returns Ok or Err; honest steps interleaved and at the end (append, honest sync, full scans of both nodes) still match the model. distinct = trace hash; non-trivial = trace with a mutating step and at least one byzantine request/proof.",
        assumptions: vec!["numeric fields stay below 2^40", "a pure CPU loop is only visible to the wall-clock watchdog (120 s per call)"],
        families,
    }
}

fn c08(tier: &str) -> PropDef {
    let quick = tier == "quick";
    let families = vec![
        Family {
            name: "large-writer",
            count: if quick { 20 } else { 1_800 },
            make: Box::new(|seed, idx| {
                let mut r = Rng::stream(seed, "C08", idx, "large");
                let mut g = G::new(idx);
                let steps = gen::large_history(&mut r, &mut g);
                let mut cfg = Cfg::basic(seed ^ idx);
                cfg.scan = ScanMode::Sampled;
                world_case(cfg, steps, Fault::None)
            }),
        },
        Family {
            name: "far-apart-replica",
            count: if quick { 12 } else { 900 },
            make: Box::new(|seed, idx| {
                let mut r = Rng::stream(seed, "C08", idx, "far");
                let count = *r.pick(&[33000u32, 40000, 66000, 70000]);
                let mut steps = vec![Step::Fill { n: 0, count, size: 1, tag0: 0 }];
                let mut targets: Vec<u64> = vec![5, 8191, 8192, 32767, 32768, 40000, 65536, count as u64 - 1, 0, 1];
                targets.retain(|t| *t < count as u64);
                r.shuffle(&mut targets);
                if idx % 2 == 1 {
                    // a replica that never holds anything in its first bitfield page(s): only
                    // blocks of the last page, then a clear that starts in a page it never allocated
                    let edge = if count as u64 > 65536 + 400 && r.chance(1, 2) { 65536u64 } else { 32768 };
                    let a = edge + r.range(1, 60);
                    let b = edge + r.range(61, (count as u64 - edge - 1).min(300));
                    steps.push(Step::Sync { to: 1, req: crate::world::Req { block: Some(a), upgrade: Some(u64::MAX >> 8), ..Default::default() } });
                    steps.push(Step::Sync { to: 1, req: crate::world::Req { block: Some(b), ..Default::default() } });
                    steps.push(Step::Clear { n: 1, start: edge - r.range(1, 300), end: a + r.range(1, 30) });
                    steps.push(Step::Info { n: 1 });
                    steps.push(Step::Reopen { n: 1 });
                    targets.truncate(2);
                }
                let mut first = true;
                for t in targets {
                    steps.push(Step::Sync { to: 1, req: crate::world::Req { block: Some(t), upgrade: if first { Some(u64::MAX >> 8) } else { None }, ..Default::default() } });
                    first = false;
                    if r.chance(1, 3) {
                        steps.push(Step::Reopen { n: 1 });
                    }
                }
                // a clear on the replica that starts in a bitfield page it never allocated and
                // continues into an allocated one (and other page-straddling clears)
                if r.chance(2, 3) {
                    let edge = *r.pick(&[32768u64, 65536]);
                    if edge < count as u64 {
                        let s = edge - r.range(1, 200);
                        steps.push(Step::Sync { to: 1, req: crate::world::Req { block: Some(edge + r.range(1, 60)), ..Default::default() } });
                        steps.push(Step::Sync { to: 1, req: crate::world::Req { block: Some(edge + r.range(61, 300)), ..Default::default() } });
                        steps.push(Step::Clear { n: 1, start: s, end: edge + r.range(40, 120) });
                    }
                }
                steps.push(Step::Reopen { n: 1 });
                let mut cfg = Cfg::basic(seed ^ idx);
                cfg.replicas = 1;
                cfg.scan = ScanMode::Sampled;
                cfg.replica_clear = true;
                world_case(cfg, steps, Fault::None)
            }),
        },
        Family {
            name: "replica-full-page",
            count: if quick { 3 } else { 120 },
            make: Box::new(|seed, idx| {
                // a replica that ends up holding whole 32768-block pages, the last gap closing
                // in front of blocks that reach the end of the highest page
                let mut r = Rng::stream(seed, "C08", idx, "full-page");
                let pages = if idx % 3 == 2 { 2u64 } else { 1 };
                let len = pages * 32768;
                let gap = match idx % 3 {
                    0 => len - 2,
                    1 => r.below(len - 1),
                    _ => 32768 + r.below(32767),
                };
                let steps = vec![
                    Step::Fill { n: 0, count: len as u32, size: 1, tag0: 0 },
                    Step::Sync { to: 1, req: crate::world::Req { block: Some(len - 1), upgrade: Some(u64::MAX >> 8), ..Default::default() } },
                    Step::SyncBlocks { to: 1, from: 0, until: len - 1, skip: Some(gap) },
                    Step::Info { n: 1 },
                    Step::Sync { to: 1, req: crate::world::Req { block: Some(gap), ..Default::default() } },
                    Step::Info { n: 1 },
                    Step::Reopen { n: 1 },
                    Step::Info { n: 1 },
                ];
                let mut cfg = Cfg::basic(seed ^ idx);
                cfg.replicas = 1;
                cfg.scan = ScanMode::None;
                cfg.subscribers = 0;
                cfg.no_snapshots = true;
                world_case(cfg, steps, Fault::None)
            }),
        },
        Family {
            name: "small-writer",
            count: if quick { 15_000 } else { 1_200_000 },
            make: Box::new(|seed, idx| {
                let mut r = Rng::stream(seed, "C08", idx, "small");
                let mut g = G::new(idx);
                let (mix, _) = gen::pick_mix(&mut r);
                let n = r.range(5, 50) as usize;
                let steps = gen::writer_history(&mut r, &mut g, n, mix);
                world_case(Cfg::basic(seed ^ idx), steps, Fault::None)
            }),
        },
        Family {
            name: "small-replica",
            count: if quick { 12_000 } else { 900_000 },
            make: Box::new(|seed, idx| {
                let mut r = Rng::stream(seed, "C08", idx, "replica");
                let mut g = G::new(idx);
                let n = r.range(4, 40) as usize;
                let mut steps = gen::replica_history(&mut r, &mut g, n, 2);
                // clears on (possibly sparse) replicas too
                for _ in 0..r.below(4) {
                    let pos = r.below(steps.len() as u64 + 1) as usize;
                    let (s, e) = g.clear_range(&mut r);
                    steps.insert(pos, Step::Clear { n: 1 + r.below(2) as u8, start: s, end: e.min(g.len + 2) });
                }
                let mut cfg = Cfg::basic(seed ^ idx);
                cfg.replicas = 2;
                cfg.replica_clear = true;
                world_case(cfg, steps, Fault::None)
            }),
        },
        Family {
            name: "crash-recovery",
            count: if quick { 3000 } else { 180_000 },
            make: Box::new(|seed, idx| {
                let mut r = Rng::stream(seed, "C08", idx, "crash");
                let mut g = G::new(idx);
                if idx % 3 == 0 {
                    let n = history_len(&mut r);
                    let steps = gen::replica_history(&mut r, &mut g, n, 1);
                    let mut cfg = Cfg::basic(seed ^ idx);
                    cfg.replicas = 1;
                    world_case(cfg, steps, Fault::CrashAll { node: 1, tear: false, suffix_seed: 0, double: false, sample: 0 })
                } else {
                    let mix = gen::Mix { append: 4, batch: 2, clear: 6, read: 0, reopen: 4, mro: 0 };
                    let n = history_len(&mut r);
                    let steps = gen::writer_history(&mut r, &mut g, n, mix);
                    world_case(Cfg::basic(seed ^ idx), steps, Fault::CrashAll { node: 0, tear: false, suffix_seed: 0, double: false, sample: 0 })
                }
            }),
        },
    ];
    PropDef {
        level: "exploration",
        rule: "invariant judge after every mutating step and reopen: has(i) for all i < length plus boundary indices of the following pages equals the model's held set, and info().contiguous_length equals the model's first missing index. Families: large writers (batches of 8k-70k blocks, clears straddling 8192/32768/65536 and word edges, clear in the middle of the contiguous run followed by reopen before the next flush), replicas that upgrade to 33k-70k blocks and fetch blocks pages apart with reopens, small writer/replica histories, and crash recovery (every journal prefix; after recovery contiguous_length must equal the first missing index of the before-or-after model it recovered to). distinct = trace hash; non-trivial = mutating step and reopen (or a crash-point enumeration).",
        assumptions: vec!["SimDisk implements the RandomAccess contract exactly as the stock backends do"],
        families,
    }
}

fn c12(tier: &str) -> PropDef {
    let quick = tier == "quick";
    let mk_hist = |prop_tag: &'static str| {
        move |seed: u64, idx: u64| {
            let mut r = Rng::stream(seed, "C12", idx, prop_tag);
            let mut g = G::new(idx);
            let mut steps = mro_history(&mut r, &mut g);
            if r.chance(1, 3) {
                let pos = r.below(steps.len() as u64 + 1) as usize;
                steps.insert(pos, Step::BadOpen { n: 0 });
            }
            // after make_read_only: appends must be refused, data intact after reopen
            let blk = g.blk(&mut r);
            steps.push(Step::Append { n: 0, blk });
            if r.chance(1, 2) {
                steps.push(Step::Batch { n: 0, blks: vec![] });
            }
            steps.push(Step::Reopen { n: 0 });
            steps.push(Step::Append { n: 0, blk });
            steps.push(Step::Batch { n: 0, blks: if r.chance(1, 2) { vec![] } else { vec![blk, blk] } });
            (r, steps)
        }
    };
    let h1 = mk_hist("hist");
    let h2 = mk_hist("crash");
    let h3 = mk_hist("tear");
    let families = vec![
        Family {
            name: "writer-histories",
            count: if quick { 20_000 } else { 1_200_000 },
            make: Box::new(move |seed, idx| {
                let (_r, steps) = h1(seed, idx);
                world_case(Cfg::basic(seed ^ idx), steps, Fault::None)
            }),
        },
        Family {
            name: "replica-histories",
            count: if quick { 6_000 } else { 360_000 },
            make: Box::new(|seed, idx| {
                let mut r = Rng::stream(seed, "C12", idx, "replica");
                let mut g = G::new(idx);
                let n = r.range(2, 12) as usize;
                let mut steps = gen::replica_history(&mut r, &mut g, n, 1);
                let blk = g.blk(&mut r);
                let pos = r.below(steps.len() as u64 + 1) as usize;
                steps.insert(pos, Step::Append { n: 1, blk });
                steps.push(Step::MakeReadOnly { n: 1 });
                steps.push(Step::BadOpen { n: 1 });
                steps.push(Step::Reopen { n: 1 });
                steps.push(Step::Batch { n: 1, blks: vec![blk, blk] });
                steps.push(Step::Batch { n: 1, blks: vec![] });
                let mut cfg = Cfg::basic(seed ^ idx);
                cfg.replicas = 1;
                world_case(cfg, steps, Fault::None)
            }),
        },
        Family {
            name: "crash-in-make-read-only",
            count: if quick { 2500 } else { 150_000 },
            make: Box::new(move |seed, idx| {
                let (mut r, steps) = h2(seed, idx);
                world_case(Cfg::basic(seed ^ idx), steps, Fault::CrashAll { node: 0, tear: false, suffix_seed: r.next(), double: false, sample: 0 })
            }),
        },
        Family {
            name: "torn-write-in-make-read-only",
            count: if quick { 700 } else { 45_000 },
            make: Box::new(move |seed, idx| {
                let (mut r, steps) = h3(seed, idx);
                world_case(Cfg::basic(seed ^ idx), steps, Fault::CrashAll { node: 0, tear: true, suffix_seed: r.next(), double: false, sample: 0 })
            }),
        },
    ];
    PropDef {
        level: "fault_enumeration",
        rule: "histories (as C01) ending in or interleaved with make_read_only, biased to reach it with 0-4 unflushed entries in the log under each header-slot phase, on writers and on replicas. Oracle: append on a core without secret key => Err(NotWritable), zero storage ops, zero events, state unchanged; after make_read_only returns true no storage file contains any 12-byte window of the 32-byte secret seed, neither right away nor after any later operation on the read-only instance (clears and reads that run the periodic flush); reopen => writeable false, same public key, all data intact; second call => Ok(false); on a replica the first call => Ok(false); key_pair(..).open(true) => Err(BadArgument) with storage untouched; every reopen checks recovered key and writability. Crash part: EVERY journal prefix (and torn prefix of the next write) of those histories is reopened: a crash inside make_read_only must recover a writable or read-only core with the full before/after scan intact. distinct = trace hash; non-trivial = mutating step and (reopen or crash enumeration).",
        assumptions: CRASH_ASSUME.to_vec(),
        families,
    }
}

fn c13(tier: &str) -> PropDef {
    let quick = tier == "quick";
    let families = vec![
        Family {
            name: "writer",
            count: if quick { 20_000 } else { 1_200_000 },
            make: Box::new(|seed, idx| {
                let mut r = Rng::stream(seed, "C13", idx, "writer");
                let mut g = G::new(idx);
                let (mix, _) = gen::pick_mix(&mut r);
                let n = r.range(5, 50) as usize;
                let steps = gen::writer_history(&mut r, &mut g, n, mix);
                let mut cfg = Cfg::basic(seed ^ idx);
                cfg.subscribers = r.range(1, 3) as u8;
                cfg.scan = ScanMode::None;
                world_case(cfg, steps, Fault::None)
            }),
        },
        Family {
            name: "replication-with-refusals",
            count: if quick { 20_000 } else { 1_200_000 },
            make: Box::new(|seed, idx| {
                let mut r = Rng::stream(seed, "C13", idx, "repl");
                let mut g = G::new(idx);
                let replicas = r.range(1, 2) as u8;
                let n = r.range(4, 30) as usize;
                let steps = gen::tamper_history(&mut r, &mut g, n, replicas, false);
                let mut cfg = Cfg::basic(seed ^ idx);
                cfg.replicas = replicas;
                cfg.subscribers = r.range(1, 3) as u8;
                cfg.scan = ScanMode::None;
                world_case(cfg, steps, Fault::None)
            }),
        },
        Family {
            name: "faulty-network",
            count: if quick { 3000 } else { 180_000 },
            make: Box::new(|seed, idx| {
                // duplicated / stale / reordered deliveries: accepted redundant upgrades and
                // refused stale proofs must announce exactly what the proof carried / nothing
                let mut r = Rng::stream(seed, "C13", idx, "network");
                let mut g = G::new(idx);
                let replicas = r.range(1, 2) as u8;
                let n_req = r.range(5, 40) as u32;
                let steps = crate::net::gen_faulty(&mut r, &mut g, replicas, n_req);
                let mut cfg = Cfg::basic(seed ^ idx);
                cfg.replicas = replicas;
                cfg.subscribers = r.range(1, 3) as u8;
                cfg.scan = ScanMode::None;
                world_case(cfg, steps, Fault::None)
            }),
        },
        Family {
            name: "failing-calls",
            count: if quick { 1000 } else { 60_000 },
            make: Box::new(|seed, idx| {
                let mut r = Rng::stream(seed, "C13", idx, "fail");
                let mut g = G::new(idx);
                let n = history_len(&mut r);
                let mut cfg = Cfg::basic(seed ^ idx);
                cfg.subscribers = 2;
                if idx % 2 == 0 {
                    let (mix, _) = gen::pick_mix(&mut r);
                    let steps = gen::writer_history(&mut r, &mut g, n, mix);
                    world_case(cfg, steps, Fault::FailAll { node: 0, suffix_seed: 0 })
                } else {
                    cfg.replicas = 1;
                    let steps = gen::replica_history(&mut r, &mut g, n, 1);
                    world_case(cfg, steps, Fault::FailAll { node: 1, suffix_seed: 0 })
                }
            }),
        },
    ];
    PropDef {
        level: "exploration",
        rule: "1-3 subscribers attached after each open; after each call every receiver is drained and compared with the expectation derived from the model: non-empty append => [DataUpgrade, Have{old_len, n, false}]; accepted proof => [DataUpgrade] iff it carried an upgrade, then [Have{index,1,false}] iff it carried a block; get of a block not held (missing, cleared, out of range) => [Get{index}]; empty batch, clear, has, info, refused proofs (C04 alterations) and failing calls (one injected I/O error at every storage op of the history) => []. All subscribers must see the same sequence; at the end of a fault-free run the union of announced ranges must equal the set of indices that became available. distinct = trace hash; non-trivial = mutating step and reopen.",
        assumptions: vec!["fewer than 32 undrained events (receivers are drained after every call)", "create_proof is outside the property's history set: the Get it emits for a cleared block is tolerated"],
        families,
    }
}

fn c05(tier: &str) -> PropDef {
    let quick = tier == "quick";
    let families = vec![
        Family {
            name: "length-sweep",
            count: if quick { 131 * 10 } else { 131 * 150 },
            make: Box::new(|seed, idx| {
                // every root-set shape up to 2^7+2 leaves, built by a seeded mix of single / batch / reopen
                let target = idx % 131;
                let mut r = Rng::stream(seed, "C05", idx, "sweep");
                let mut g = G::new(idx);
                let mut steps = vec![];
                while g.len < target {
                    let left = target - g.len;
                    match r.below(5) {
                        0 => steps.push(Step::Reopen { n: 0 }),
                        1 | 2 => {
                            let blk = g.blk(&mut r);
                            g.len += 1;
                            steps.push(Step::Append { n: 0, blk });
                        }
                        _ => {
                            let k = r.range(1, left.min(17));
                            let blks = (0..k).map(|_| g.blk(&mut r)).collect();
                            g.len += k;
                            steps.push(Step::Batch { n: 0, blks });
                        }
                    }
                }
                steps.push(Step::Reopen { n: 0 });
                for _ in 0..r.range(2, 8) {
                    steps.push(Step::Sync { to: 1, req: gen::rand_req(&mut r) });
                }
                let mut cfg = Cfg::basic(seed ^ idx);
                cfg.replicas = 1;
                cfg.judge_tree = true;
                cfg.scan = ScanMode::None;
                world_case(cfg, steps, Fault::None)
            }),
        },
        Family {
            name: "seeded",
            count: if quick { 1500 } else { 120_000 },
            make: Box::new(|seed, idx| {
                let mut r = Rng::stream(seed, "C05", idx, "seeded");
                let mut g = G::new(idx);
                let n = r.range(4, 30) as usize;
                let steps = gen::replica_history(&mut r, &mut g, n, 1);
                let mut cfg = Cfg::basic(seed ^ idx);
                cfg.replicas = 1;
                cfg.judge_tree = true;
                cfg.scan = ScanMode::None;
                world_case(cfg, steps, Fault::None)
            }),
        },
        Family {
            name: "long",
            count: if quick { 30 } else { 3_000 },
            make: Box::new(|seed, idx| {
                let mut r = Rng::stream(seed, "C05", idx, "long");
                let mut g = G::new(idx);
                let mut steps = vec![];
                let total = r.range(200, 5000) as u32;
                let mut done = 0u32;
                while done < total {
                    let c = r.range(1, 900).min((total - done) as u64) as u32;
                    steps.push(Step::Fill { n: 0, count: c, size: r.range(0, 64) as u32, tag0: g.next_tag });
                    g.next_tag += c;
                    g.len += c as u64;
                    done += c;
                    if r.chance(1, 3) {
                        steps.push(Step::Reopen { n: 0 });
                    }
                }
                for _ in 0..6 {
                    steps.push(Step::Sync { to: 1, req: gen::rand_req(&mut r) });
                }
                let mut cfg = Cfg::basic(seed ^ idx);
                cfg.replicas = 1;
                cfg.judge_tree = true;
                cfg.scan = ScanMode::None;
                world_case(cfg, steps, Fault::None)
            }),
        },
        Family {
            name: "crash-recovery-then-flush",
            count: if quick { 1000 } else { 75_000 },
            make: Box::new(|seed, idx| {
                // recovered cores run a suffix; the suffix world judges tree/header/signatures too
                let mut r = Rng::stream(seed, "C05", idx, "crash");
                let mut g = G::new(idx);
                let (mix, _) = gen::pick_mix(&mut r);
                let n = history_len(&mut r);
                let steps = gen::writer_history(&mut r, &mut g, n, mix);
                let mut cfg = Cfg::basic(seed ^ idx);
                cfg.judge_tree = true;
                world_case(cfg, steps, Fault::CrashAll { node: 0, tear: false, suffix_seed: r.next(), double: false, sample: 0 })
            }),
        },
    ];
    PropDef {
        level: "exploration",
        rule: "after every mutating step the raw tree store is walked: every non-blank 40-byte node must equal the independent reference (own flat-tree arithmetic, BLAKE2b-256 leaf/parent hashes) for the writer's block sequence, and on a freshly flushed writer every full node below length must be present; the stored header root_hash must equal the reference tree hash of the reference roots, the header signature and every log-entry / served-proof signature must verify under the core's public key over namespace||root hash||LE64 length||LE64 fork with a COMPUTED namespace; every node and block value in every served proof must equal the reference. Families: all lengths 0..130 (every root-set shape up to 2^7+2) built by seeded single/batch/reopen mixes, seeded writer+replica histories, logs of 200-5000 blocks with block sizes 0-64 B (sizes up to 12 KiB in the seeded family), and recovered-after-crash cores followed by flushing steps. distinct = trace hash; non-trivial = mutating step and reopen.",
        assumptions: vec!["blake2 and ed25519-dalek primitives are the trusted base", "the JS-layout reader of C06 is used to locate header and entries"],
        families,
    }
}

fn c06(tier: &str) -> PropDef {
    let quick = tier == "quick";
    let families = vec![
        Family {
            name: "golden-interop",
            count: 1,
            make: Box::new(|_seed, _idx| Case { prop: String::new(), family: String::new(), run: 0, body: Body::Golden }),
        },
        Family {
            name: "reader-writer-histories",
            count: if quick { 12_000 } else { 900_000 },
            make: Box::new(|seed, idx| {
                let mut r = Rng::stream(seed, "C06", idx, "reader");
                let mut g = G::new(idx);
                let (mix, _) = gen::pick_mix(&mut r);
                let n = r.range(3, 30) as usize;
                let steps = gen::writer_history(&mut r, &mut g, n, mix);
                let mut cfg = Cfg::basic(seed ^ idx);
                cfg.judge_layout = true;
                cfg.scan = ScanMode::None;
                world_case(cfg, steps, Fault::None)
            }),
        },
        Family {
            name: "reader-replica-histories",
            count: if quick { 8_000 } else { 600_000 },
            make: Box::new(|seed, idx| {
                let mut r = Rng::stream(seed, "C06", idx, "reader-replica");
                let mut g = G::new(idx);
                let n = r.range(3, 30) as usize;
                let steps = gen::replica_history(&mut r, &mut g, n, 1);
                let mut cfg = Cfg::basic(seed ^ idx);
                cfg.replicas = 1;
                cfg.judge_layout = true;
                cfg.scan = ScanMode::None;
                world_case(cfg, steps, Fault::None)
            }),
        },
        Family {
            name: "reader-varint-boundary",
            count: if quick { 40 } else { 6_000 },
            make: Box::new(|seed, idx| {
                let mut r = Rng::stream(seed, "C06", idx, "varint");
                let mut g = G::new(idx);
                let steps = gen::varint_boundary_history(&mut r, &mut g);
                let mut cfg = Cfg::basic(seed ^ idx);
                cfg.judge_layout = true;
                cfg.scan = ScanMode::None;
                world_case(cfg, steps, Fault::None)
            }),
        },
        Family {
            name: "reader-large",
            count: if quick { 4 } else { 240 },
            make: Box::new(|seed, idx| {
                // cores spanning several 32768-block bitfield pages (page offsets, page-crossing clears)
                let mut r = Rng::stream(seed, "C06", idx, "reader-large");
                let count = *r.pick(&[32769u32, 33000, 40000, 65537, 70000]);
                let mut steps = vec![Step::Fill { n: 0, count, size: 1, tag0: 0 }];
                if r.chance(1, 2) {
                    let s = *r.pick(&[32760u64, 32767, 32768, 100]);
                    steps.push(Step::Clear { n: 0, start: s, end: s + r.range(1, 20) });
                }
                steps.push(Step::Append { n: 0, blk: crate::model::Blk { tag: 7, len: 3 } });
                steps.push(Step::Reopen { n: 0 });
                let mut cfg = Cfg::basic(seed ^ idx);
                cfg.judge_layout = true;
                cfg.scan = ScanMode::None;
                world_case(cfg, steps, Fault::None)
            }),
        },
        Family {
            name: "js-encoded-stores-large",
            count: if quick { 3 } else { 180 },
            make: Box::new(|seed, idx| {
                let mut r = Rng::stream(seed, "C06", idx, "jswrite-large");
                let n = *r.pick(&[32769u32, 33000, 65537]);
                let blks: Vec<crate::model::Blk> = (0..n).map(|i| crate::model::Blk { tag: i, len: 1 }).collect();
                let mut spec = crate::jsfmt::JsStoreSpec {
                    key_seed: idx ^ 0x1a46e,
                    flushed: vec![crate::jsfmt::JsOp::Append(blks)],
                    header_writes: r.range(1, 4) as u32,
                    other_slot: r.below(3) as u8,
                    ..Default::default()
                };
                if r.chance(1, 2) {
                    spec.flushed.push(crate::jsfmt::JsOp::Clear(32766, 32770));
                }
                spec.entries.push(crate::jsfmt::JsOp::Append(vec![crate::model::Blk { tag: 900_000, len: 4 }]));
                Case { prop: String::new(), family: String::new(), run: 0, body: Body::JsStore(spec) }
            }),
        },
        Family {
            name: "js-encoded-stores",
            count: if quick { 25_000 } else { 1_800_000 },
            make: Box::new(|seed, idx| {
                let mut r = Rng::stream(seed, "C06", idx, "jswrite");
                let spec = crate::jsfmt::gen_js_store(&mut r, idx);
                Case { prop: String::new(), family: String::new(), run: 0, body: Body::JsStore(spec) }
            }),
        },
    ];
    PropDef {
        level: "exploration",
        rule: "(reader) at every operation boundary of writer and replica histories (unflushed entries of every flag combination the crate produces: append 2|4|8, clear 8, block proof 2|8, upgrade proof 2|4 / 4) the four files are dumped and an independent reader that implements only the JavaScript Hypercore 10 layout and open algorithm (own compact-encoding, own CRC-32) must reconstruct what the API reports: length, byte_length, fork, public key, writability, has(i) and block bytes. (golden) the five-step interop scenario is executed Rust-only on SimDisk and the 20 file hashes must equal the SHA-256 values certified against JavaScript. (writer) the reference encoder lays out model histories the way JS would - header in either slot with any bit parity, other slot older/absent/garbage, 0-4 entries, atomic batches, and a foreign process that died mid-batch (trailing partial entries), left a cut last entry, or stale entries with the other header bit - and the crate must open it (within the watchdog) to the same state. distinct = case hash; non-trivial = history with mutating step and reopen / store with at least one operation.",
        assumptions: vec![
            "the layout rules were transcribed from hypercore 10 (oplog.js, messages.js, bitfield, merkle-tree); the 20 certified hashes are the only direct link to the JS implementation available offline",
        ],
        families,
    }
}

fn c15(tier: &str) -> PropDef {
    let quick = tier == "quick";
    let shared_case = |spec: crate::c15::SharedSpec| Case { prop: String::new(), family: String::new(), run: 0, body: Body::Shared(spec) };
    let families = vec![
        Family {
            name: "dfs-small",
            count: if quick { 300 } else { 6_000 },
            make: Box::new(move |seed, idx| {
                let mut r = Rng::stream(seed, "C15", idx, "dfs");
                let mut spec = crate::c15::gen_spec(&mut r, idx, true);
                spec.sched = crate::c15::Sched::Dfs { cap: if quick { 300 } else { 3_000 } };
                shared_case(spec)
            }),
        },
        Family {
            name: "random",
            count: if quick { 150_000 } else { 6_000_000 },
            make: Box::new(move |seed, idx| {
                let mut r = Rng::stream(seed, "C15", idx / 8, "random");
                // 8 schedules per workload
                let mut spec = crate::c15::gen_spec(&mut r, idx / 8, false);
                spec.sched = crate::c15::Sched::Random { seed: seed ^ idx.wrapping_mul(0x9E37) };
                shared_case(spec)
            }),
        },
        Family {
            name: "starved-waiters",
            count: if quick { 6_000 } else { 200_000 },
            make: Box::new(move |seed, idx| {
                // async-lock hands the lock over in queue order only to waiters that waited more
                // than 500 us: these runs force that mode so that the gap between two lock
                // sections of one call can open
                let mut r = Rng::stream(seed, "C15", idx / 6, "starved");
                let mut spec = crate::c15::gen_spec(&mut r, idx / 6, false);
                spec.starve = true;
                spec.sched = if idx % 2 == 0 {
                    crate::c15::Sched::Random { seed: seed ^ idx.wrapping_mul(0x51ED) }
                } else {
                    crate::c15::Sched::Pct { seed: seed ^ idx.wrapping_mul(0x2F4B), d: 1 + (idx % 3) as u32 }
                };
                shared_case(spec)
            }),
        },
        Family {
            name: "starved-dfs-small",
            count: if quick { 60 } else { 1_500 },
            make: Box::new(move |seed, idx| {
                let mut r = Rng::stream(seed, "C15", idx, "starved-dfs");
                let mut spec = crate::c15::gen_spec(&mut r, idx, true);
                spec.starve = true;
                spec.sched = crate::c15::Sched::Dfs { cap: if quick { 60 } else { 600 } };
                shared_case(spec)
            }),
        },
        Family {
            name: "pct",
            count: if quick { 80_000 } else { 3_000_000 },
            make: Box::new(move |seed, idx| {
                let mut r = Rng::stream(seed, "C15", idx / 8, "pct");
                let mut spec = crate::c15::gen_spec(&mut r, idx / 8, false);
                spec.sched = crate::c15::Sched::Pct { seed: seed ^ idx.wrapping_mul(0x7F4A), d: 1 + (idx % 3) as u32 };
                shared_case(spec)
            }),
        },
    ];
    PropDef {
        level: "exploration",
        rule: "2-4 tasks x 1-4 calls from {append, append_batch, get, has, info, create_proof (block / upgrade), missing_nodes, clear through the public mutex, verify_and_apply_proof of pre-made honest proofs on a replica} on one SharedCore over a SimDisk that returns Pending once before every storage operation; the poll order chosen by the scheduler is the schedule (depth-first enumeration of all schedules with a cap for 2 tasks x <= 2 calls, seeded random, PCT with 1-3 priority change points). Invoke/return stamps come from the executor's global event sequence number. Oracle: Wing-Gong search for a sequential order that respects real-time precedence and reproduces every result on sequential models (list model for a writer, (length, held) for a replica; a created upgrade proof must carry the signature of the length at its linearisation point, verified with the independent Merkle reference); direct judges: append outcomes cover 0..length exactly once and each block holds the bytes of the append whose outcome implies its index; deadlock, panic and step-budget overrun are violations. distinct = distinct schedule (task id sequence) hash per workload; non-trivial = the schedule preempted a task that was still runnable at least once.",
        assumptions: vec![
            "one OS thread: async-lock and Arc are trusted; data races are excluded by &mut + the mutex, the residual risk is lock-scope bugs",
            "async-lock's anti-starvation path depends on a wall clock inside the dependency (a waiter that waited > 500 us gets fair hand-off); the families starved-* force it by really waiting 650 us whenever a task parks on the mutex, the other families run in barging mode (an OS stall > 500 us can switch a run to fair mode, which changes the explored schedule but not the verdict)",
            "histories are at most 16 operations",
        ],
        families,
    }
}

fn c14(tier: &str) -> PropDef {
    use crate::c14::{Arm, ConfigSpec};
    use crate::disk::Backend;
    let quick = tier == "quick";
    let mk = |seed: u64, idx: u64, with_disk: bool| {
        let mut r = Rng::stream(seed, "C14", idx, if with_disk { "disk" } else { "mem" });
        let mut g = G::new(idx);
        let replica = r.chance(1, 2);
        let n = r.range(4, 24) as usize;
        let steps = if replica {
            gen::replica_history(&mut r, &mut g, n, 1)
        } else {
            let (mix, _) = gen::pick_mix(&mut r);
            gen::writer_history(&mut r, &mut g, n, mix)
        };
        let mut arms = vec![
            Arm { backend: Backend::Sim, cache: CacheMode::Off, nosparse: false },
            Arm { backend: Backend::Sim, cache: CacheMode::Default, nosparse: false },
            Arm { backend: Backend::Sim, cache: CacheMode::Tiny, nosparse: false },
        ];
        if with_disk || idx % 4 == 0 {
            arms.push(Arm { backend: Backend::Memory, cache: CacheMode::Off, nosparse: false });
            arms.push(Arm { backend: Backend::Memory, cache: CacheMode::Tiny, nosparse: false });
        }
        if with_disk {
            arms.push(Arm { backend: Backend::DiskFs, cache: CacheMode::Off, nosparse: false });
            arms.push(Arm { backend: Backend::DiskFs, cache: CacheMode::Default, nosparse: false });
            arms.push(Arm { backend: Backend::DiskFs, cache: CacheMode::Tiny, nosparse: false });
            arms.push(Arm { backend: Backend::DiskFs, cache: CacheMode::Off, nosparse: true });
        }
        let spec = ConfigSpec { key_seed: seed ^ idx, replicas: if replica { 1 } else { 0 }, steps, arms };
        Case { prop: String::new(), family: String::new(), run: 0, body: Body::Config(spec) }
    };
    let families = vec![
        Family {
            name: "sim-memory-cache",
            count: if quick { 2000 } else { 80_000 },
            make: Box::new(move |seed, idx| mk(seed, idx, false)),
        },
        Family {
            name: "tampered-replication-cache",
            count: if quick { 300 } else { 15_000 },
            make: Box::new(move |seed, idx| {
                // refused / accepted altered proofs must be refused / accepted the same way with
                // and without a node cache
                let mut r = Rng::stream(seed, "C14", idx, "tamper");
                let mut g = G::new(idx);
                let n = r.range(4, 20) as usize;
                let steps = gen::tamper_history(&mut r, &mut g, n, 1, false);
                let arms = vec![
                    Arm { backend: Backend::Sim, cache: CacheMode::Off, nosparse: false },
                    Arm { backend: Backend::Sim, cache: CacheMode::Default, nosparse: false },
                    Arm { backend: Backend::Sim, cache: CacheMode::Tiny, nosparse: false },
                ];
                let spec = ConfigSpec { key_seed: seed ^ idx, replicas: 1, steps, arms };
                Case { prop: String::new(), family: String::new(), run: 0, body: Body::Config(spec) }
            }),
        },
        Family {
            name: "sim-memory-disk",
            count: if quick { 400 } else { 20_000 },
            make: Box::new(move |seed, idx| {
                // writer histories biased to clears reaching the end of the data file, empty blocks
                // right after them and reopens: where file-length bookkeeping of the backends differs
                let mut r = Rng::stream(seed, "C14", idx, "sim-mem-disk");
                let mut g = G::new(idx);
                let mut steps = vec![];
                let n = r.range(6, 22);
                for _ in 0..n {
                    match r.below(12) {
                        0 | 1 => {
                            let blk = g.blk(&mut r);
                            g.len += 1;
                            steps.push(Step::Append { n: 0, blk });
                        }
                        2 | 3 => {
                            steps.push(Step::Append { n: 0, blk: g.small_blk(0) });
                            g.len += 1;
                        }
                        4 => {
                            let k = r.range(1, 4);
                            let blks = (0..k).map(|_| g.blk(&mut r)).collect();
                            g.len += k;
                            steps.push(Step::Batch { n: 0, blks });
                        }
                        5 | 6 if g.len > 0 => {
                            // clear a tail range
                            let s = r.below(g.len);
                            steps.push(Step::Clear { n: 0, start: s, end: g.len + r.below(3) });
                        }
                        7 | 8 if g.len > 0 => {
                            let (s, e) = g.clear_range(&mut r);
                            steps.push(Step::Clear { n: 0, start: s, end: e.min(g.len + 2) });
                        }
                        9 | 10 => steps.push(Step::Reopen { n: 0 }),
                        _ => steps.push(Step::Get { n: 0, index: g.index(&mut r) }),
                    }
                }
                let arms = vec![
                    Arm { backend: Backend::Sim, cache: CacheMode::Off, nosparse: false },
                    Arm { backend: Backend::Memory, cache: CacheMode::Off, nosparse: false },
                    Arm { backend: Backend::DiskFs, cache: CacheMode::Off, nosparse: false },
                ];
                let spec = ConfigSpec { key_seed: seed ^ idx, replicas: 0, steps, arms };
                Case { prop: String::new(), family: String::new(), run: 0, body: Body::Config(spec) }
            }),
        },
        Family {
            name: "with-real-disk",
            count: if quick { 60 } else { 3_000 },
            make: Box::new(move |seed, idx| mk(seed, idx, true)),
        },
    ];
    PropDef {
        level: "exploration",
        rule: "one seeded trace (C01 writer histories or C03 honest replica histories, with reopen) is executed under: SimDisk x {cache off, default cache, tiny cache of ~3 nodes}, the real random-access-memory backend x {off, tiny}, and (family with-real-disk) the real random-access-disk backend on /dev/shm x {off, default, tiny} plus once more in a second binary built without the `sparse` feature. Oracle: the op-by-op observation log (every call result and every post-step full scan) is identical across arms and the bytes of all four files of every node are identical after EVERY step (length and content; up to trailing zero bytes when a real-disk arm is involved). Family sim-memory-disk biases writer histories to tail clears, empty blocks and reopens, where the backends' file-length bookkeeping differs. distinct = case hash; non-trivial = mutating step and reopen.",
        assumptions: vec![
            "moka's maintenance timing is not under simulator control; it only affects which nodes are cached, which is exactly what must not be observable; replay of a C14 failure is 'same trace, same configuration', not bit-exact cache state",
            "the disk arm runs real tokio file I/O on tmpfs",
        ],
        families,
    }
}

pub fn prop_def(prop: &str, tier: &str) -> Option<PropDef> {
    match prop {
        "C14" => Some(c14(tier)),
        "C15" => Some(c15(tier)),
        "C05" => Some(c05(tier)),
        "C06" => Some(c06(tier)),
        "C04" => Some(c04(tier)),
        "C08" => Some(c08(tier)),
        "C09" => Some(c09(tier)),
        "C12" => Some(c12(tier)),
        "C13" => Some(c13(tier)),
        "C03" => Some(c03(tier)),
        "C01" => Some(c01(tier)),
        "C02" => Some(c02(tier)),
        "C07" => Some(c07(tier)),
        "C10" => Some(c10(tier)),
        _ => None,
    }
}

pub fn components() -> serde_json::Value {
    json!({
        "real": ["hypercore core/oplog/tree/bitfield/storage dispatch/events/SharedCore (path dependency on /repo, rebuilt by every check)",
                 "async-lock", "async-broadcast", "compact-encoding", "flat-tree", "ed25519-dalek", "blake2", "crc32fast", "intmap", "moka (cache arms)"],
        "stub": ["SimDisk storage backend (RandomAccess impl)", "single-threaded executor / scheduler", "simulated network and clock", "replicator / retry logic (stands in for hypercore-protocol)", "byzantine peer"],
    })
}

pub fn write_evidence(opts: &RunOpts, def: &PropDef, s: &Summary, wall: f64, violations: usize) {
    let hours = (wall / 3600.0).max(1e-9);
    let mut faults = serde_json::Map::new();
    faults.insert("clean_close_reopen".into(), json!(s.stats.reopens));
    for (k, v) in &s.counters {
        faults.insert(k.clone(), json!(v));
    }
    let ev = json!({
        "property_id": opts.prop,
        "tier": opts.tier,
        "seed": opts.seed,
        "level": def.level,
        "coverage": {
            "evaluations": s.evaluations,
            "distinct_nontrivial": s.nontrivial.len(),
            "distinct_traces": s.trace_hashes.len(),
            "rule": def.rule,
            "samples": s.samples,
            "families": s.families,
            "runs_per_hour": (s.evaluations as f64 / hours) as u64,
            "seeds_per_hour": (1.0 / hours) as u64,
            "simulated_time_covered": format!("{} simulated public calls (event-sequence steps; the crate has no clock)", s.sim_steps),
            "sim_steps": s.sim_steps,
            "faults_fired": faults,
            "distinct_states": s.states.len(),
            "distinct_states_measure": "distinct (model digest, oplog file length) tuples observed after mutating steps",
            "ops": {
                "steps": s.stats.steps, "calls": s.stats.calls, "appends": s.stats.appends, "clears": s.stats.clears,
                "reopens": s.stats.reopens, "scans": s.stats.scans, "skipped_illformed": s.stats.skipped,
                "honest_proofs": s.stats.proofs_honest, "honest_accepted": s.stats.proofs_accepted, "no_proof_for_cleared": s.stats.proofs_none,
                "tampered": s.stats.tampered, "tampered_refused": s.stats.tampered_refused, "tampered_accepted_still_truthful": s.stats.tampered_accepted,
                "raw_peer_calls": s.stats.raw_calls,
            },
            "request_classes": s.stats.req_classes,
            "probes": s.stats.probes,
            "aborted_runs_not_judged": s.aborted,
            "aborted_reasons": s.abort_reasons,
            "known_findings_matched": s.known,
            "components": components(),
            "event_log_hash": format!("{:016x}", s.log_hash),
            "workers": opts.workers,
        },
        "assumptions": def.assumptions,
        "wall_s": wall,
        "violations": violations,
    });
    let dir = harness::verif_dir().join("evidence");
    let _ = std::fs::create_dir_all(&dir);
    let p = dir.join(format!("{}.json", opts.prop));
    std::fs::write(&p, serde_json::to_string_pretty(&ev).unwrap()).expect("write evidence");
}

pub fn check(opts: &RunOpts, t0: Instant) -> i32 {
    let Some(def) = prop_def(&opts.prop, &opts.tier) else {
        eprintln!("harness error: no check for property {}", opts.prop);
        return 2;
    };
    let mut def = def;
    if let Ok(only) = std::env::var("HCSIM_FAMILY") {
        // developer aid: run a single family
        def.families.retain(|f| f.name == only);
    }
    let fams: Vec<(String, u64)> = def.families.iter().map(|f| (f.name.to_string(), f.count)).collect();
    let def_meta = PropDef { level: def.level, rule: def.rule, assumptions: def.assumptions.clone(), families: vec![] };
    let mut s = harness::run_families(opts, def.families);
    let run_wall = t0.elapsed().as_secs_f64();
    let reported = harness::report_violations(opts, &mut s);
    harness::print_known(opts, &s);
    let wall = t0.elapsed().as_secs_f64();
    write_evidence(opts, &def_meta, &s, wall, reported);
    println!(
        "{} {}: {} runs ({:?}) in {:.1}s ({:.0} runs/h), {} distinct traces, {} non-trivial, {} distinct states, {} sim calls, aborted(not judged) {}, event-log hash {:016x}",
        opts.prop, opts.tier, s.evaluations, fams, run_wall,
        s.evaluations as f64 / (run_wall / 3600.0).max(1e-9),
        s.trace_hashes.len(), s.nontrivial.len(), s.states.len(), s.sim_steps, s.aborted, s.log_hash
    );
    if !s.counters.is_empty() {
        println!("faults fired: {:?}", s.counters);
    }
    if !s.stats.probes.is_empty() {
        println!("probes: {:?}", s.stats.probes);
    }
    if !s.abort_reasons.is_empty() {
        println!("aborted runs (not judged) by reason: {:?}", s.abort_reasons);
    }
    if reported > 0 {
        1
    } else {
        println!("OK property={} held on everything explored", opts.prop);
        0
    }
}

pub const ALL_PROPS: [&str; 14] =
    ["C01", "C02", "C03", "C04", "C05", "C06", "C07", "C08", "C09", "C10", "C12", "C13", "C14", "C15"];

/// prints the merged event-log hash of a quick run (no evidence, no replay files)
pub fn print_hash(prop: &str, seed: u64, workers: usize) -> i32 {
    let Some(def) = prop_def(prop, "quick") else { return 2 };
    let opts = RunOpts { prop: prop.into(), tier: "quick".into(), seed, workers, max_reports: 0, wall_limit_s: 0 };
    let s = harness::run_families(&opts, def.families);
    println!("{prop} seed={seed} workers={workers} runs={} hash={:016x} violations={}", s.evaluations, s.log_hash, s.violations.len());
    0
}

pub fn selfcheck(what: &str, workers: usize) -> i32 {
    match what {
        "determinism" => {
            // every property, several seeds, twice each in separate processes at worker counts 1
            // and N: the merged event-log hashes must agree
            let exe = std::env::current_exe().unwrap();
            let mut bad = 0;
            let seeds: Vec<u64> = std::env::var("HCSIM_DET_SEEDS")
                .ok()
                .map(|s| s.split(',').filter_map(|x| x.parse().ok()).collect())
                .unwrap_or_else(|| vec![1, 2, 3]);
            for prop in ALL_PROPS {
                for seed in &seeds {
                    let mut hashes = vec![];
                    for wk in [1usize, workers, workers] {
                        let out = std::process::Command::new(&exe)
                            .args(["hash", prop, &seed.to_string(), &wk.to_string()])
                            .output()
                            .expect("spawn");
                        let line = String::from_utf8_lossy(&out.stdout).lines().last().unwrap_or("").to_string();
                        let h = line.split("hash=").nth(1).map(|s| s.split(' ').next().unwrap_or("").to_string()).unwrap_or_default();
                        hashes.push(h);
                    }
                    let ok = !hashes[0].is_empty() && hashes.iter().all(|h| *h == hashes[0]);
                    println!("determinism {prop} seed {seed}: {hashes:?} {}", if ok { "ok" } else { "MISMATCH" });
                    if !ok {
                        bad += 1;
                    }
                }
            }
            if bad > 0 {
                println!("DETERMINISM FAILURE in {bad} (property, seed) pairs");
                2
            } else {
                println!("determinism OK");
                0
            }
        }
        _ => 2,
    }
}
