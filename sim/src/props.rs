//! Per-property families (what is generated per tier), evidence writing, self-checks.

use crate::gen::{self, G};
use crate::harness::{self, Body, Case, Family, Fault, RunOpts, Summary};
use crate::rng::Rng;
use crate::world::{CacheMode, Cfg, ScanMode, Step};
use serde_json::json;
use std::time::Instant;

fn world_case(cfg: Cfg, steps: Vec<Step>, fault: Fault) -> Case {
    Case { prop: String::new(), family: String::new(), run: 0, body: Body::World { cfg, steps, fault } }
}

#[allow(dead_code)]
fn cache_for(r: &mut Rng) -> CacheMode {
    match r.below(6) {
        0 => CacheMode::Default,
        1 => CacheMode::Tiny,
        _ => CacheMode::Off,
    }
}

pub struct PropDef {
    pub level: &'static str,
    pub rule: &'static str,
    pub assumptions: Vec<&'static str>,
    pub families: Vec<Family>,
}

fn c01(tier: &str) -> PropDef {
    let quick = tier == "quick";
    let sweep_len = if quick { 3 } else { 4 };
    let seeded = if quick { 3000 } else { 150_000 };
    let large = if quick { 6 } else { 200 };
    let families = vec![
        Family {
            name: "sweep",
            count: gen::sweep_count(sweep_len),
            make: Box::new(move |_seed, idx| {
                let (code, len) = gen::sweep_decode(idx, sweep_len);
                let mut g = G::new(idx);
                let steps = gen::sweep_trace(code, len, &mut g);
                world_case(Cfg::basic(7), steps, Fault::None)
            }),
        },
        Family {
            name: "seeded",
            count: seeded,
            make: Box::new(|seed, idx| {
                let mut r = Rng::stream(seed, "C01", idx, "workload");
                let mut g = G::new(idx);
                let (mix, _) = gen::pick_mix(&mut r);
                let n = r.range(5, 60) as usize;
                let steps = gen::writer_history(&mut r, &mut g, n, mix);
                let cfg = Cfg::basic(seed ^ idx);
                world_case(cfg, steps, Fault::None)
            }),
        },
        Family {
            name: "large",
            count: large,
            make: Box::new(|seed, idx| {
                let mut r = Rng::stream(seed, "C01", idx, "large");
                let mut g = G::new(idx);
                let steps = gen::large_history(&mut r, &mut g);
                let mut cfg = Cfg::basic(seed ^ idx);
                cfg.scan = ScanMode::Sampled;
                world_case(cfg, steps, Fault::None)
            }),
        },
    ];
    PropDef {
        level: "exploration",
        rule: "cases = operation traces on one writer core over SimDisk: (sweep) every trace of length <= L over a 9-letter alphabet {append 0B, append 3B, batch [], batch of 3, clear first, clear last, clear across end, reopen, read-all}; (seeded) PRNG traces of 5-60 steps with swarm-style mixes; (large) batches of 8k-70k blocks crossing bitfield page edges with clears and reopens. After every mutating step the whole core is scanned (info, has, get for all indices < length+2; sampled in the large family) against the list model. distinct = distinct trace hash; non-trivial = trace has at least one mutating step and at least one close-and-reopen.",
        assumptions: vec![
            "SimDisk implements the RandomAccess contract exactly as random-access-memory/-disk do (write extends with zeros, read beyond length = OutOfBounds, del to EOF = truncate)",
            "Ed25519/BLAKE2b primitives are trusted",
        ],
        families,
    }
}

pub fn prop_def(prop: &str, tier: &str) -> Option<PropDef> {
    match prop {
        "C01" => Some(c01(tier)),
        _ => None,
    }
}

pub fn components() -> serde_json::Value {
    json!({
        "real": ["hypercore core/oplog/tree/bitfield/storage dispatch/events/SharedCore (path dependency on /repo, rebuilt by every check)",
                 "async-lock", "async-broadcast", "compact-encoding", "flat-tree", "ed25519-dalek", "blake2", "crc32fast", "intmap", "moka (cache arms)"],
        "stub": ["SimDisk storage backend (RandomAccess impl)", "single-threaded executor / scheduler", "simulated network and clock", "replicator / retry logic (stands in for hypercore-protocol)", "byzantine peer"],
    })
}

pub fn write_evidence(opts: &RunOpts, def: &PropDef, s: &Summary, wall: f64, violations: usize) {
    let hours = (wall / 3600.0).max(1e-9);
    let mut faults = serde_json::Map::new();
    faults.insert("clean_close_reopen".into(), json!(s.stats.reopens));
    for (k, v) in &s.counters {
        faults.insert(k.clone(), json!(v));
    }
    let ev = json!({
        "property_id": opts.prop,
        "tier": opts.tier,
        "seed": opts.seed,
        "level": def.level,
        "coverage": {
            "evaluations": s.evaluations,
            "distinct_nontrivial": s.nontrivial.len(),
            "distinct_traces": s.trace_hashes.len(),
            "rule": def.rule,
            "samples": s.samples,
            "families": s.families,
            "runs_per_hour": (s.evaluations as f64 / hours) as u64,
            "seeds_per_hour": (1.0 / hours) as u64,
            "simulated_time_covered": format!("{} simulated public calls (event-sequence steps; the crate has no clock)", s.sim_steps),
            "sim_steps": s.sim_steps,
            "faults_fired": faults,
            "distinct_states": s.states.len(),
            "distinct_states_measure": "distinct (model digest, oplog file length) tuples observed after mutating steps",
            "ops": {
                "steps": s.stats.steps, "calls": s.stats.calls, "appends": s.stats.appends, "clears": s.stats.clears,
                "reopens": s.stats.reopens, "scans": s.stats.scans, "skipped_illformed": s.stats.skipped,
                "honest_proofs": s.stats.proofs_honest, "honest_accepted": s.stats.proofs_accepted, "no_proof_for_cleared": s.stats.proofs_none,
                "tampered": s.stats.tampered, "tampered_refused": s.stats.tampered_refused, "tampered_accepted_still_truthful": s.stats.tampered_accepted,
                "raw_peer_calls": s.stats.raw_calls,
            },
            "request_classes": s.stats.req_classes,
            "probes": s.stats.probes,
            "aborted_runs_not_judged": s.aborted,
            "known_findings_matched": s.known,
            "components": components(),
            "event_log_hash": format!("{:016x}", s.log_hash),
            "workers": opts.workers,
        },
        "assumptions": def.assumptions,
        "wall_s": wall,
        "violations": violations,
    });
    let dir = harness::verif_dir().join("evidence");
    let _ = std::fs::create_dir_all(&dir);
    let p = dir.join(format!("{}.json", opts.prop));
    std::fs::write(&p, serde_json::to_string_pretty(&ev).unwrap()).expect("write evidence");
}

pub fn check(opts: &RunOpts, t0: Instant) -> i32 {
    let Some(def) = prop_def(&opts.prop, &opts.tier) else {
        eprintln!("harness error: no check for property {}", opts.prop);
        return 2;
    };
    let fams: Vec<(String, u64)> = def.families.iter().map(|f| (f.name.to_string(), f.count)).collect();
    let def_meta = PropDef { level: def.level, rule: def.rule, assumptions: def.assumptions.clone(), families: vec![] };
    let mut s = harness::run_families(opts, def.families);
    let run_wall = t0.elapsed().as_secs_f64();
    let reported = harness::report_violations(opts, &mut s);
    harness::print_known(opts, &s);
    let wall = t0.elapsed().as_secs_f64();
    write_evidence(opts, &def_meta, &s, wall, reported);
    println!(
        "{} {}: {} runs ({:?}) in {:.1}s ({:.0} runs/h), {} distinct traces, {} non-trivial, {} distinct states, {} sim calls, aborted(not judged) {}, event-log hash {:016x}",
        opts.prop, opts.tier, s.evaluations, fams, run_wall,
        s.evaluations as f64 / (run_wall / 3600.0).max(1e-9),
        s.trace_hashes.len(), s.nontrivial.len(), s.states.len(), s.sim_steps, s.aborted, s.log_hash
    );
    if !s.counters.is_empty() {
        println!("faults fired: {:?}", s.counters);
    }
    if !s.stats.probes.is_empty() {
        println!("probes: {:?}", s.stats.probes);
    }
    if reported > 0 {
        1
    } else {
        println!("OK property={} held on everything explored", opts.prop);
        0
    }
}

pub fn selfcheck(what: &str, workers: usize) -> i32 {
    match what {
        "determinism" => {
            // same seeds, twice, at two worker counts: event-log hashes must agree
            let mut bad = 0;
            for prop in ["C01"] {
                let mut hashes = vec![];
                for wk in [1usize, workers, workers] {
                    let Some(def) = prop_def(prop, "quick") else { continue };
                    let opts = RunOpts { prop: prop.into(), tier: "quick".into(), seed: 1, workers: wk, max_reports: 0, wall_limit_s: 0 };
                    let s = harness::run_families(&opts, def.families);
                    hashes.push((wk, s.log_hash, s.evaluations));
                }
                println!("determinism {prop}: {hashes:x?}");
                if hashes.iter().any(|h| h.1 != hashes[0].1) {
                    bad += 1;
                }
            }
            if bad > 0 {
                println!("DETERMINISM FAILURE");
                2
            } else {
                println!("determinism OK");
                0
            }
        }
        _ => 2,
    }
}
