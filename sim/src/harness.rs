//! Cases, the parallel seeded runner, minimisation, replay files, known findings, evidence.

use crate::exec;
use crate::rng::{hash_str, Digest};
use crate::world::{Cfg, Stats, Step, Viol, World};
use serde::{Deserialize, Serialize};
use std::collections::{BTreeMap, BTreeSet};
use std::sync::atomic::{AtomicBool, AtomicU64, Ordering};
use std::sync::{Arc, Mutex, OnceLock};
use std::time::Instant;

#[derive(Clone, Debug, Serialize, Deserialize, PartialEq)]
pub enum Fault {
    None,
    /// enumerate every journal prefix of `node` (and, with `tear`, byte-prefix tears of the next write)
    CrashAll { node: u8, tear: bool, suffix_seed: u64, double: bool, sample: u32 },
    /// one concrete crash point: first k journal ops (+ first `tear` bytes of op k), then reopen,
    /// judge, then `suffix` under the C01 oracle; k2 = second crash inside the suffix's journal
    Crash { node: u8, k: usize, tear: Option<usize>, suffix: Vec<Step>, k2: Option<usize> },
    /// re-execute once per storage op index with an injected I/O error
    FailAll { node: u8, suffix_seed: u64 },
    Fail { node: u8, op: u64, suffix: Vec<Step> },
}

#[derive(Clone, Debug, Serialize, Deserialize, PartialEq)]
pub enum Body {
    World { cfg: Cfg, steps: Vec<Step>, fault: Fault },
    Golden,
    JsStore(crate::jsfmt::JsStoreSpec),
    Config(crate::c14::ConfigSpec),
    Shared(crate::c15::SharedSpec),
    Net(crate::net::NetSpec),
}

#[derive(Clone, Debug, Serialize, Deserialize, PartialEq)]
pub struct Case {
    pub prop: String,
    pub family: String,
    pub run: u64,
    pub body: Body,
}

impl Case {
    pub fn json(&self) -> String {
        serde_json::to_string(self).unwrap()
    }
    pub fn hash(&self) -> u64 {
        let b = serde_json::to_string(&self.body).unwrap();
        hash_str(&b)
    }
}

#[derive(Default, Debug, Clone)]
pub struct CaseOut {
    pub viols: Vec<Viol>,
    pub log_hash: u64,
    pub stats: Stats,
    pub counters: BTreeMap<String, u64>,
    pub states: BTreeSet<u64>,
    /// concretised failing case (enumeration faults turn into one concrete crash point / fault op)
    pub concrete: Option<Box<Case>>,
    pub aborted: Option<String>,
    pub nontrivial: bool,
    pub sim_steps: u64,
}

impl CaseOut {
    pub fn count(&mut self, k: &str, v: u64) {
        *self.counters.entry(k.to_string()).or_insert(0) += v;
    }
}

/// which violation clauses belong to which property's check
pub fn accepts(prop: &str, clause: &str) -> bool {
    match prop {
        "C01" => clause.starts_with("C01.") || clause.starts_with("CALL."),
        p => clause.starts_with(p) && clause.as_bytes().get(p.len()) == Some(&b'.'),
    }
}

pub fn run_case(case: &Case) -> CaseOut {
    exec::wd_enter(&case.prop, &format!("{}#{}", case.family, case.run), || case.json());
    let mut out = match &case.body {
        Body::World { cfg, steps, fault } => match fault {
            Fault::None => run_world_plain(cfg, steps),
            _ => crate::crash::run_faulted(case, cfg, steps, fault),
        },
        Body::Golden => crate::jsfmt::run_golden(),
        Body::JsStore(spec) => crate::jsfmt::run_js_store(spec),
        Body::Config(spec) => crate::c14::run_config(spec),
        Body::Shared(spec) => crate::c15::run_shared(spec),
        Body::Net(spec) => crate::net::run_net(spec),
    };
    exec::wd_leave();
    out.viols.retain(|v| accepts(&case.prop, &v.clause));
    out
}

pub fn run_world_plain(cfg: &Cfg, steps: &[Step]) -> CaseOut {
    let mut w = World::new(cfg.clone());
    w.create_all();
    w.run_steps(steps);
    world_out(w, steps)
}

pub fn world_out(mut w: World, steps: &[Step]) -> CaseOut {
    let mut out = CaseOut::default();
    out.log_hash = w.log.0;
    out.sim_steps = w.stats.calls + w.sim_time;
    out.nontrivial = steps.iter().any(|s| s.is_mutating())
        && steps.iter().any(|s| {
            matches!(
                s,
                Step::Reopen { .. }
                    | Step::Tamper { .. }
                    | Step::TamperAll { .. }
                    | Step::RawRequest { .. }
                    | Step::RawProof { .. }
                    | Step::CrashRestart { .. }
                    | Step::NetDeliver { .. }
            )
        });
    out.stats = std::mem::take(&mut w.stats);
    out.states = std::mem::take(&mut w.distinct_states);
    out.aborted = w.aborted.take();
    out.viols = std::mem::take(&mut w.viols);
    if let Some(tag) = &w.cfg.retag_as {
        for v in out.viols.iter_mut() {
            if v.clause.starts_with("C01.") || v.clause.starts_with("C03.") || v.clause.starts_with("CALL.") {
                v.msg = format!("[{}] {}", v.clause, v.msg);
                v.clause = tag.clone();
            }
        }
    }
    out
}

// ---------------------------------------------------------------------------------------------
// Known findings

#[derive(Clone, Debug, Serialize, Deserialize)]
pub struct KnownFinding {
    pub property: String,
    /// "open" (suppresses matching violations, prints KNOWN-FINDING) or "fixed" (suppresses nothing)
    pub status: String,
    /// name of a structural matcher implemented in `matches_finding`
    pub matcher: String,
    pub what: String,
    #[serde(default)]
    pub commit: Option<String>,
}

#[derive(Clone, Debug, Serialize, Deserialize, Default)]
pub struct KnownFindings {
    pub findings: Vec<KnownFinding>,
}

pub fn load_known() -> KnownFindings {
    let p = verif_dir().join("known_findings.json");
    match std::fs::read_to_string(&p) {
        Ok(s) => serde_json::from_str(&s).unwrap_or_else(|e| {
            eprintln!("harness error: cannot parse {}: {e}", p.display());
            std::process::exit(2);
        }),
        Err(_) => KnownFindings::default(),
    }
}

/// Structural matchers: identify a violation by the specific input/call site, never by property
/// alone, so that a different violation of the same property is still reported.
pub fn matches_finding(kf: &KnownFinding, case: &Case, v: &Viol) -> bool {
    if kf.status != "open" || kf.property != case.prop {
        return false;
    }
    match kf.matcher.as_str() {
        // honest hash request whose span straddles the replica's length (= upgrade.start)
        // (a clean refusal only: a panic, hang or wrong data in that class is still reported)
        "c03-hash-straddle" => {
            v.clause == "C03.straddle" && (v.msg.contains("not served: Err(") || v.msg.contains("not accepted: Err("))
        }
        _ => false,
    }
}

pub fn verif_dir() -> std::path::PathBuf {
    std::env::var("HCSIM_VERIF_DIR").map(Into::into).unwrap_or_else(|_| "/verif".into())
}

// ---------------------------------------------------------------------------------------------
// Replay files

#[derive(Clone, Debug, Serialize, Deserialize)]
pub struct ReplayFile {
    pub property: String,
    pub seed: u64,
    pub tier: String,
    pub clause: String,
    pub message: String,
    pub step: i64,
    pub log_hash: u64,
    pub minimised: bool,
    pub original_steps: usize,
    pub case: Case,
}

pub fn write_replay(rf: &ReplayFile) -> std::path::PathBuf {
    let dir = verif_dir().join("replays");
    let _ = std::fs::create_dir_all(&dir);
    let name = format!(
        "{}-s{}-{}-r{}-{}.json",
        rf.property,
        rf.seed,
        rf.case.family,
        rf.case.run,
        rf.clause.replace('.', "_")
    );
    let p = dir.join(name);
    std::fs::write(&p, serde_json::to_string_pretty(rf).unwrap()).expect("write replay file");
    p
}

/// Re-executes exactly the trace in the file. Exit code semantics are handled by main.
pub fn replay(path: &str) -> (ReplayFile, CaseOut, bool) {
    let s = std::fs::read_to_string(path).unwrap_or_else(|e| {
        eprintln!("harness error: cannot read {path}: {e}");
        std::process::exit(2);
    });
    let rf: ReplayFile = serde_json::from_str(&s).unwrap_or_else(|e| {
        eprintln!("harness error: cannot parse {path}: {e}");
        std::process::exit(2);
    });
    let out = run_case(&rf.case);
    let same = out.viols.iter().any(|v| v.clause == rf.clause);
    (rf, out, same)
}

// ---------------------------------------------------------------------------------------------
// Minimisation: delta debugging over the step list (and suffix), keeping the violation clause.

fn steps_of(case: &Case) -> Option<&Vec<Step>> {
    match &case.body {
        Body::World { steps, .. } => Some(steps),
        Body::Config(spec) => Some(&spec.steps),
        _ => None,
    }
}

fn with_steps(case: &Case, new_steps: Vec<Step>) -> Case {
    let mut c = case.clone();
    match &mut c.body {
        Body::World { steps, .. } => *steps = new_steps,
        Body::Config(spec) => spec.steps = new_steps,
        _ => {}
    }
    c
}

/// For enumeration faults the failing crash point moves when steps are removed, so the
/// minimiser works on the enumerating form and concretises at the end.
/// C15: drop calls (and emptied tasks) one at a time; a reduced workload is kept when a bounded
/// depth-first search over ITS schedules still finds the same violation class; the reported case
/// carries the concrete choice path found for the reduced workload.
fn minimise_shared(case: &Case, clause: &str, budget: usize) -> (Case, usize) {
    let Body::Shared(spec0) = &case.body else { return (case.clone(), 0) };
    let mut best_spec = spec0.clone();
    let mut best_case = case.clone();
    let mut execs = 0usize;
    let try_spec = |spec: &crate::c15::SharedSpec, execs: &mut usize| -> Option<Case> {
        let mut probe = spec.clone();
        probe.sched = crate::c15::Sched::Dfs { cap: 400 };
        let c = Case { prop: case.prop.clone(), family: case.family.clone(), run: case.run, body: Body::Shared(probe) };
        *execs += 1;
        let out = run_case(&c);
        if out.viols.iter().any(|v| v.clause == clause) {
            out.concrete.map(|b| {
                let mut cc = *b;
                cc.prop = case.prop.clone();
                cc.family = case.family.clone();
                cc.run = case.run;
                cc
            })
        } else {
            None
        }
    };
    let mut progress = true;
    while progress && execs < budget {
        progress = false;
        'outer: for t in 0..best_spec.tasks.len() {
            for i in 0..best_spec.tasks[t].len() {
                let mut cand = best_spec.clone();
                cand.tasks[t].remove(i);
                if cand.tasks.iter().filter(|x| !x.is_empty()).count() < 2 {
                    continue;
                }
                cand.tasks.retain(|x| !x.is_empty());
                if let Some(c) = try_spec(&cand, &mut execs) {
                    if let Body::Shared(s2) = &c.body {
                        best_spec = s2.clone();
                    }
                    best_case = c;
                    progress = true;
                    break 'outer;
                }
                if execs >= budget {
                    break 'outer;
                }
            }
        }
        if !progress && !best_spec.prelude.is_empty() && execs < budget {
            let mut cand = best_spec.clone();
            cand.prelude.pop();
            // keep every clear well-formed (start below the length at any linearisation point)
            let ok = cand.tasks.iter().flatten().all(|op| match op {
                crate::c15::Op::Clear(s, _) => (*s as usize) < cand.prelude.len(),
                _ => true,
            });
            if !ok {
                break;
            }
            if let Some(c) = try_spec(&cand, &mut execs) {
                if let Body::Shared(s2) = &c.body {
                    best_spec = s2.clone();
                }
                best_case = c;
                progress = true;
            }
        }
    }
    (best_case, execs)
}

pub fn minimise(case: &Case, clause: &str, budget: usize) -> (Case, usize) {
    if matches!(case.body, Body::Shared(_)) {
        return minimise_shared(case, clause, budget.min(120));
    }
    let mut best = case.clone();
    let mut execs = 0usize;
    let fails = |c: &Case, execs: &mut usize| -> bool {
        *execs += 1;
        let out = run_case(c);
        out.viols.iter().any(|v| v.clause == clause)
    };
    let Some(steps) = steps_of(&best).cloned() else {
        return (best, 0);
    };
    let mut steps = steps;
    // 1. cut after the failing step for plain traces
    {
        let out = run_case(&best);
        execs += 1;
        if let Some(v) = out.viols.iter().find(|v| v.clause == clause) {
            if matches!(&best.body, Body::World { fault: Fault::None, .. })
                && v.step >= 0
                && ((v.step + 1) as usize) < steps.len()
            {
                let cut: Vec<Step> = steps[..(v.step + 1) as usize].to_vec();
                let c = with_steps(&best, cut.clone());
                if fails(&c, &mut execs) {
                    steps = cut;
                    best = c;
                }
            }
        } else {
            return (best, execs);
        }
    }
    // 2. ddmin
    let mut chunk = (steps.len() / 2).max(1);
    while chunk >= 1 && execs < budget {
        let mut i = 0;
        let mut removed_any = false;
        while i < steps.len() && execs < budget {
            let end = (i + chunk).min(steps.len());
            let mut cand = steps.clone();
            cand.drain(i..end);
            let c = with_steps(&best, cand.clone());
            if fails(&c, &mut execs) {
                steps = cand;
                best = c;
                removed_any = true;
            } else {
                i = end;
            }
        }
        if chunk == 1 && !removed_any {
            break;
        }
        if !removed_any || chunk > steps.len() {
            chunk /= 2;
        }
        if chunk == 0 {
            break;
        }
    }
    // 3. simplify individual steps
    let mut i = 0;
    while i < steps.len() && execs < budget {
        for cand_step in crate::gen::simpler(&steps[i]) {
            let mut cand = steps.clone();
            cand[i] = cand_step;
            let c = with_steps(&best, cand.clone());
            if fails(&c, &mut execs) {
                steps = cand;
                best = c;
                break;
            }
        }
        i += 1;
    }
    (best, execs)
}

// ---------------------------------------------------------------------------------------------
// Runner

pub struct Family {
    pub name: &'static str,
    pub count: u64,
    pub make: Box<dyn Fn(u64 /*seed*/, u64 /*idx*/) -> Case + Sync + Send>,
}

#[derive(Default)]
pub struct Summary {
    pub evaluations: u64,
    pub stats: Stats,
    pub counters: BTreeMap<String, u64>,
    pub states: BTreeSet<u64>,
    pub nontrivial: BTreeSet<u64>,
    pub trace_hashes: BTreeSet<u64>,
    pub samples: Vec<serde_json::Value>,
    pub violations: Vec<(u64, String, Case, Viol, CaseOut)>,
    pub known: BTreeMap<String, u64>,
    pub aborted: u64,
    pub abort_reasons: BTreeMap<String, u64>,
    pub sim_steps: u64,
    pub log_hash: u64,
    pub families: BTreeMap<String, u64>,
}

pub struct RunOpts {
    pub prop: String,
    pub tier: String,
    pub seed: u64,
    pub workers: usize,
    pub max_reports: usize,
    pub wall_limit_s: u64,
}

pub fn run_families(opts: &RunOpts, families: Vec<Family>) -> Summary {
    let known = load_known();
    let total: u64 = families.iter().map(|f| f.count).sum();
    let next = AtomicU64::new(0);
    let stop = AtomicBool::new(false);
    let sum = Mutex::new(Summary::default());
    let per_run_hash: Mutex<BTreeMap<u64, u64>> = Mutex::new(BTreeMap::new());
    let t0 = Instant::now();
    let fams = &families;
    std::thread::scope(|sc| {
        for wkr in 0..opts.workers {
            let next = &next;
            let stop = &stop;
            let sum = &sum;
            let known = &known;
            let per_run_hash = &per_run_hash;
            sc.spawn(move || {
                exec::set_worker(wkr);
                let mut local = Summary::default();
                loop {
                    if stop.load(Ordering::SeqCst) {
                        break;
                    }
                    if opts.wall_limit_s > 0 && t0.elapsed().as_secs() > opts.wall_limit_s {
                        break;
                    }
                    let idx = next.fetch_add(1, Ordering::SeqCst);
                    if idx >= total {
                        break;
                    }
                    // locate family
                    let mut off = idx;
                    let mut fam = &fams[0];
                    for f in fams.iter() {
                        if off < f.count {
                            fam = f;
                            break;
                        }
                        off -= f.count;
                    }
                    // developer aid: HCSIM_OFFSET shifts the run index within each family
                    let off = off + std::env::var("HCSIM_OFFSET").ok().and_then(|s| s.parse::<u64>().ok()).unwrap_or(0);
                    let mut case = (fam.make)(opts.seed, off);
                    case.prop = opts.prop.clone();
                    case.family = fam.name.to_string();
                    case.run = off;
                    let out = match std::panic::catch_unwind(std::panic::AssertUnwindSafe(|| run_case(&case))) {
                        Ok(o) => o,
                        Err(_) => {
                            eprintln!(
                                "harness error: internal panic while running {} {}#{}: {}\ncase: {}",
                                opts.prop, fam.name, off, exec::take_last_panic(), case.json()
                            );
                            std::process::exit(2);
                        }
                    };
                    local.evaluations += 1;
                    *local.families.entry(fam.name.to_string()).or_insert(0) += 1;
                    local.stats.merge(&out.stats);
                    for (k, v) in &out.counters {
                        *local.counters.entry(k.clone()).or_insert(0) += v;
                    }
                    local.states.extend(out.states.iter().copied());
                    let h = case.hash();
                    local.trace_hashes.insert(h);
                    if out.nontrivial {
                        local.nontrivial.insert(h);
                    }
                    if let Some(a) = &out.aborted {
                        local.aborted += 1;
                        let key: String = a.chars().take(70).collect();
                        *local.abort_reasons.entry(key).or_insert(0) += 1;
                    }
                    local.sim_steps += out.sim_steps;
                    per_run_hash.lock().unwrap().insert(idx, out.log_hash);
                    if off < 2 {
                        // samples are written out in the evidence file: keep them readable
                        let js = serde_json::to_string(&case.body).unwrap();
                        if js.len() <= 6000 {
                            local.samples.push(serde_json::json!({
                                "family": fam.name, "run": off,
                                "case": serde_json::to_value(&case.body).unwrap(),
                            }));
                        } else {
                            let head: String = js.chars().take(1500).collect();
                            local.samples.push(serde_json::json!({
                                "family": fam.name, "run": off,
                                "case_abbreviated": format!("{head}…"),
                                "case_json_bytes": js.len(),
                            }));
                        }
                    }
                    if !out.viols.is_empty() {
                        // split into known findings and unlisted violations
                        let mut unlisted: Option<Viol> = None;
                        for v in &out.viols {
                            if let Some(kf) =
                                known.findings.iter().find(|kf| matches_finding(kf, &case, v))
                            {
                                *local.known.entry(kf.what.clone()).or_insert(0) += 1;
                            } else if unlisted.is_none() {
                                unlisted = Some(v.clone());
                            }
                        }
                        if let Some(v) = unlisted {
                            local.violations.push((idx, fam.name.to_string(), case, v, out));
                            let mut g = sum.lock().unwrap();
                            g.evaluations += 0;
                            drop(g);
                            // keep going for a little while so that the lowest index wins
                            // deterministically, but stop the batch early
                            stop.store(true, Ordering::SeqCst);
                        }
                    }
                }
                // merge
                let mut g = sum.lock().unwrap();
                g.evaluations += local.evaluations;
                g.stats.merge(&local.stats);
                for (k, v) in local.counters {
                    *g.counters.entry(k).or_insert(0) += v;
                }
                for (k, v) in local.known {
                    *g.known.entry(k).or_insert(0) += v;
                }
                for (k, v) in local.families {
                    *g.families.entry(k).or_insert(0) += v;
                }
                g.states.extend(local.states);
                g.nontrivial.extend(local.nontrivial);
                g.trace_hashes.extend(local.trace_hashes);
                g.samples.extend(local.samples);
                g.violations.extend(local.violations);
                g.aborted += local.aborted;
                for (k, v) in local.abort_reasons {
                    *g.abort_reasons.entry(k).or_insert(0) += v;
                }
                g.sim_steps += local.sim_steps;
            });
        }
    });
    let mut s = sum.into_inner().unwrap();
    s.violations.sort_by_key(|v| v.0);
    s.samples.sort_by_key(|v| v.to_string());
    s.samples.truncate(12);
    let mut d = Digest::default();
    for (k, v) in per_run_hash.into_inner().unwrap() {
        d.u64(k);
        d.u64(v);
    }
    s.log_hash = d.0;
    s
}

pub static REPORTED: OnceLock<Arc<Mutex<Vec<String>>>> = OnceLock::new();

/// Minimise, persist and verify (fresh process) each unlisted violation; print VIOLATION lines.
/// Returns number of violations reported.
pub fn report_violations(opts: &RunOpts, s: &mut Summary) -> usize {
    let mut reported = 0usize;
    let mut seen_clauses: BTreeSet<String> = BTreeSet::new();
    let viols = std::mem::take(&mut s.violations);
    for (_idx, _fam, case, v, out) in viols.iter() {
        if reported >= opts.max_reports {
            break;
        }
        if !seen_clauses.insert(v.clause.clone()) {
            continue;
        }
        // concretise enumeration faults
        let base: Case = match &out.concrete {
            Some(c) => (**c).clone(),
            None => case.clone(),
        };
        let orig_steps = steps_of(&base).map(|s| s.len()).unwrap_or(0);
        // minimise on the enumerating form when there is one, then concretise
        let (min_case, execs) = if out.concrete.is_some() {
            let (m, e) = minimise(case, &v.clause, 200);
            let o = run_case(&m);
            match o.concrete {
                Some(c) if o.viols.iter().any(|x| x.clause == v.clause) => (*c, e),
                _ => (base.clone(), e),
            }
        } else {
            minimise(&base, &v.clause, 300)
        };
        let final_out = run_case(&min_case);
        let (final_case, final_v, minimised) =
            match final_out.viols.iter().find(|x| x.clause == v.clause) {
                Some(fv) => (min_case, fv.clone(), true),
                None => (base.clone(), v.clone(), false),
            };
        let check_out = run_case(&final_case);
        let rf = ReplayFile {
            property: opts.prop.clone(),
            seed: opts.seed,
            tier: opts.tier.clone(),
            clause: final_v.clause.clone(),
            message: final_v.msg.clone(),
            step: final_v.step,
            log_hash: check_out.log_hash,
            minimised,
            original_steps: orig_steps,
            case: final_case,
        };
        let path = write_replay(&rf);
        // fresh-process replay must reproduce, else this is a harness fault (exit 2)
        let exe = std::env::current_exe().unwrap();
        let mut st = std::process::Command::new(&exe).arg("replay").arg(&path).arg("--quiet").status();
        for _ in 0..2 {
            if matches!(&st, Ok(s) if s.code() == Some(1)) {
                break;
            }
            // one retry: a replay can be disturbed by the same OS stalls as a run (C15)
            st = std::process::Command::new(&exe).arg("replay").arg(&path).arg("--quiet").status();
        }
        match st {
            Ok(st) if st.code() == Some(1) => {}
            other => {
                eprintln!(
                    "harness error: replay of {} in a fresh process did not reproduce ({other:?}); not reporting an unreplayable alarm",
                    path.display()
                );
                std::process::exit(2);
            }
        }
        println!(
            "violation detail: clause={} step={} minimised={} ({} -> {} steps, {} re-executions): {}",
            rf.clause,
            rf.step,
            minimised,
            orig_steps,
            steps_of(&rf.case).map(|s| s.len()).unwrap_or(0),
            execs,
            rf.message
        );
        println!("VIOLATION property={} replay={}", opts.prop, path.display());
        reported += 1;
    }
    s.violations = viols;
    reported
}

pub fn print_known(opts: &RunOpts, s: &Summary) {
    for (what, n) in &s.known {
        println!("KNOWN-FINDING: property={} {} (matched {} times in this run)", opts.prop, what, n);
    }
}
