//! The cluster world: node 0 is the writer (holds the secret key), nodes 1.. are replicas of it.
//! Every node runs the real `hypercore::Hypercore` on its own SimDisk. A *trace* is an explicit
//! list of `Step`s; this interpreter executes it against the crate and the reference models and
//! records violations tagged with the property clause they belong to.

use crate::disk::{Disk, Files};
use crate::exec::{self, Guarded};
use crate::merkle::{ft, RefTree};
use crate::model::{payload, Blk, Model, Truth};
use crate::rng::Digest;
use ed25519_dalek::SigningKey;
use hypercore::replication::Event;
use hypercore::{
    CacheOptionsBuilder, Hypercore, HypercoreBuilder, HypercoreError, PartialKeypair, Proof,
    RequestBlock, RequestSeek, RequestUpgrade,
};
use serde::{Deserialize, Serialize};
use std::panic::{catch_unwind, AssertUnwindSafe};

#[derive(Clone, Copy, Debug, Serialize, Deserialize, PartialEq, Eq)]
pub enum CacheMode {
    Off,
    Default,
    Tiny,
}

#[derive(Clone, Copy, Debug, Serialize, Deserialize, PartialEq, Eq)]
pub enum ScanMode {
    None,
    Full,
    Sampled,
}

#[derive(Clone, Debug, Serialize, Deserialize, PartialEq)]
pub struct Cfg {
    pub replicas: u8,
    pub cache: CacheMode,
    pub subscribers: u8,
    pub scan: ScanMode,
    pub key_seed: u64,
    #[serde(default)]
    pub judge_tree: bool,
    #[serde(default)]
    pub judge_layout: bool,
    #[serde(default)]
    pub yield_mode: bool,
    #[serde(default)]
    pub backend: crate::disk::Backend,
    /// skip per-call model snapshots (only needed by crash / fault enumeration); for very long runs
    #[serde(default)]
    pub no_snapshots: bool,
    /// allow clear() on sparse replicas (C08): an Err is tolerated, the outcome is resolved by observation
    #[serde(default)]
    pub replica_clear: bool,
    /// re-tag content/call violations of this run (C02 multi-crash histories: "later operations and
    /// reopens again satisfy C01" is C02's own clause)
    #[serde(default)]
    pub retag_as: Option<String>,
}

impl Cfg {
    pub fn basic(key_seed: u64) -> Cfg {
        Cfg {
            replicas: 0,
            cache: CacheMode::Off,
            subscribers: 1,
            scan: ScanMode::Full,
            key_seed,
            judge_tree: false,
            judge_layout: false,
            yield_mode: false,
            backend: crate::disk::Backend::Sim,
            no_snapshots: false,
            replica_clear: false,
            retag_as: None,
        }
    }
}

/// Symbolic replication request; normalised against the models at execution time so that a
/// trace stays well-formed under minimisation. The concrete request is logged.
#[derive(Clone, Debug, Serialize, Deserialize, PartialEq, Default)]
pub struct Req {
    pub block: Option<u64>,
    /// flat-tree node index selector
    pub hash: Option<u64>,
    /// byte offset selector (reduced into the admissible span)
    pub seek: Option<u64>,
    /// requested upgrade length selector (reduced into 1..=behind); None = only if required
    pub upgrade: Option<u64>,
    /// allow hash requests whose span straddles the replica's length (known-finding probe)
    #[serde(default)]
    pub straddle: bool,
}

#[derive(Clone, Debug, Serialize, Deserialize, PartialEq)]
pub enum Step {
    Append { n: u8, blk: Blk },
    Batch { n: u8, blks: Vec<Blk> },
    /// large batch: `count` blocks of `size` bytes, tags tag0..tag0+count
    Fill { n: u8, count: u32, size: u32, tag0: u32 },
    Clear { n: u8, start: u64, end: u64 },
    Get { n: u8, index: u64 },
    Has { n: u8, index: u64 },
    Info { n: u8 },
    Reopen { n: u8 },
    MakeReadOnly { n: u8 },
    /// honest request from replica `to`, served by the writer, applied on `to`
    Sync { to: u8, req: Req },
    /// C04: honest proof for `req`, altered by `mutation`, offered to `to` before the honest one
    Tamper { to: u8, req: Req, mutation: crate::tamper::Mutation },
    /// C04 thorough: the whole systematic alteration set of the honest proof, then the honest one
    TamperAll { to: u8, req: Req },
    /// C09: raw request straight to create_proof on node n
    RawRequest { n: u8, block: Option<(u64, u64)>, hash: Option<(u64, u64)>, seek: Option<u64>, upgrade: Option<(u64, u64)> },
    /// C09: structurally arbitrary proof to verify_and_apply_proof on node n
    RawProof { n: u8, proof: crate::tamper::RawProofSpec },
    /// explicit full scan of node n against its model
    Scan { n: u8 },
    /// C12: supplying a key pair together with open mode must be rejected (BadArgument)
    BadOpen { n: u8 },
    /// faulty-network arm: replica `to` issues request `id` (node count from its current state)
    NetSend { id: u32, to: u8, req: Req },
    /// the writer serves request `id` from its current state (the response replaces the request)
    NetServe { id: u32 },
    /// response `id` reaches its replica (may be stale, duplicated or reordered)
    NetDeliver { id: u32 },
    /// process death of node n; `back` storage ops of its last call are lost (0 = clean restart)
    CrashRestart { n: u8, back: u32 },
    /// faults have stopped: the replicator must bring every replica to hold every non-cleared block
    Converge,
    /// bookkeeping from the network simulator (fault counters, simulated time)
    Note { what: String, v: u64 },
    /// honest block requests for every index in [from, until) except `skip`, ascending (compact
    /// form for replicas that fetch whole bitfield pages)
    SyncBlocks { to: u8, from: u64, until: u64, skip: Option<u64> },
}

impl Step {
    pub fn node(&self) -> u8 {
        match self {
            Step::Append { n, .. }
            | Step::Batch { n, .. }
            | Step::Fill { n, .. }
            | Step::Clear { n, .. }
            | Step::Get { n, .. }
            | Step::Has { n, .. }
            | Step::Info { n }
            | Step::Reopen { n }
            | Step::MakeReadOnly { n }
            | Step::RawRequest { n, .. }
            | Step::RawProof { n, .. }
            | Step::BadOpen { n }
            | Step::CrashRestart { n, .. }
            | Step::Scan { n } => *n,
            Step::NetSend { to, .. } | Step::SyncBlocks { to, .. } => *to,
            Step::NetServe { .. } | Step::NetDeliver { .. } | Step::Converge | Step::Note { .. } => 0,
            Step::Sync { to, .. } | Step::Tamper { to, .. } | Step::TamperAll { to, .. } => *to,
        }
    }
    pub fn is_mutating(&self) -> bool {
        !matches!(
            self,
            Step::Get { .. }
                | Step::Has { .. }
                | Step::Info { .. }
                | Step::Scan { .. }
                | Step::BadOpen { .. }
                | Step::Note { .. }
                | Step::NetSend { .. }
                | Step::NetServe { .. }
        )
    }
}

#[derive(Clone, Debug, Serialize, Deserialize, PartialEq)]
pub struct Viol {
    pub clause: String,
    pub step: i64,
    pub msg: String,
}

#[derive(Clone, Debug, PartialEq, Eq)]
pub enum Ev {
    Get(u64),
    Upgrade,
    Have(u64, u64, bool),
}

#[derive(Clone, Debug)]
pub struct CallSnap {
    pub node: u8,
    pub step: i64,
    pub label: String,
    pub before: Model,
    pub after: Model,
    /// journal range [j0, j1) of the node's disk covered by this call
    pub j0: usize,
    pub j1: usize,
    /// op-counter range of the node's disk
    pub o0: u64,
    pub o1: u64,
    pub returned_err: bool,
    pub returned_ok: bool,
    /// the call panicked or hung
    pub crashed: bool,
}

pub struct NodeRt {
    /// indices announced by Have events / indices that became available per the model (C13)
    pub announced: std::collections::BTreeSet<u64>,
    pub became: std::collections::BTreeSet<u64>,
    pub events_lost: bool,
    pub disk: Disk,
    pub core: Option<Hypercore>,
    pub model: Model,
    pub rx: Vec<async_broadcast::Receiver<Event>>,
    pub dead: bool,
}

#[derive(Default, Debug, Clone)]
pub struct Stats {
    pub steps: u64,
    pub calls: u64,
    pub reopens: u64,
    pub appends: u64,
    pub clears: u64,
    pub proofs_honest: u64,
    pub proofs_accepted: u64,
    pub proofs_none: u64,
    pub tampered: u64,
    pub tampered_accepted: u64,
    pub tampered_refused: u64,
    pub raw_calls: u64,
    pub scans: u64,
    pub skipped: u64,
    pub req_classes: std::collections::BTreeMap<String, u64>,
    pub probes: std::collections::BTreeMap<String, u64>,
}

impl Stats {
    pub fn probe(&mut self, k: &str) {
        *self.probes.entry(k.to_string()).or_insert(0) += 1;
    }
    pub fn class(&mut self, k: &str) {
        *self.req_classes.entry(k.to_string()).or_insert(0) += 1;
    }
    pub fn merge(&mut self, o: &Stats) {
        self.steps += o.steps;
        self.calls += o.calls;
        self.reopens += o.reopens;
        self.appends += o.appends;
        self.clears += o.clears;
        self.proofs_honest += o.proofs_honest;
        self.proofs_accepted += o.proofs_accepted;
        self.proofs_none += o.proofs_none;
        self.tampered += o.tampered;
        self.tampered_accepted += o.tampered_accepted;
        self.tampered_refused += o.tampered_refused;
        self.raw_calls += o.raw_calls;
        self.scans += o.scans;
        self.skipped += o.skipped;
        for (k, v) in &o.req_classes {
            *self.req_classes.entry(k.clone()).or_insert(0) += v;
        }
        for (k, v) in &o.probes {
            *self.probes.entry(k.clone()).or_insert(0) += v;
        }
    }
}

pub struct World {
    pub cfg: Cfg,
    pub nodes: Vec<NodeRt>,
    pub key: SigningKey,
    pub truth: Truth,
    pub reftree: RefTree,
    pub viols: Vec<Viol>,
    pub log: Digest,
    pub call_no: u32,
    pub calls: Vec<CallSnap>,
    pub stats: Stats,
    pub aborted: Option<String>,
    pub cur_step: i64,
    /// stop executing after the injected I/O fault fired (C10)
    pub stop_on_fault: bool,
    pub trace_log: Vec<String>,
    pub keep_trace_log: bool,
    pub distinct_states: std::collections::BTreeSet<u64>,
    pub pool: std::collections::BTreeMap<u32, crate::net::Msg>,
    pub sim_time: u64,
    pub scratch: Option<std::path::PathBuf>,
    pub made_read_only: bool,
}

impl Drop for World {
    fn drop(&mut self) {
        if let Some(d) = self.scratch.take() {
            for n in self.nodes.iter_mut() {
                let c = n.core.take();
                let _ = std::panic::catch_unwind(std::panic::AssertUnwindSafe(move || drop(c)));
            }
            let _ = std::fs::remove_dir_all(&d);
        }
    }
}

pub fn key_from_seed(seed: u64) -> SigningKey {
    let mut r = crate::rng::Rng::new(seed, &[0x6b65_79]);
    let b = r.bytes(32);
    let mut a = [0u8; 32];
    a.copy_from_slice(&b);
    SigningKey::from_bytes(&a)
}

pub fn err_kind(e: &HypercoreError) -> &'static str {
    match e {
        HypercoreError::BadArgument { .. } => "BadArgument",
        HypercoreError::NotWritable => "NotWritable",
        HypercoreError::InvalidSignature { .. } => "InvalidSignature",
        HypercoreError::InvalidChecksum { .. } => "InvalidChecksum",
        HypercoreError::EmptyStorage { .. } => "EmptyStorage",
        HypercoreError::CorruptStorage { .. } => "CorruptStorage",
        HypercoreError::InvalidOperation { .. } => "InvalidOperation",
        HypercoreError::IO { .. } => "IO",
    }
}

/// Outcome of one guarded public call, flattened for judging.
#[derive(Debug)]
pub enum Res<T> {
    Ok(T),
    Err(&'static str, String),
    Panic(String),
    Hang(String),
}

impl<T> Res<T> {
    pub fn from<E: Into<HypercoreError>>(g: Guarded<Result<T, E>>) -> Res<T> {
        match g {
            Guarded::Done(Ok(v)) => Res::Ok(v),
            Guarded::Done(Err(e)) => {
                let e: HypercoreError = e.into();
                Res::Err(err_kind(&e), e.to_string())
            }
            Guarded::Panic(m) => Res::Panic(m),
            Guarded::Hang(m) => Res::Hang(m),
        }
    }
    pub fn brief(&self) -> String
    where
        T: std::fmt::Debug,
    {
        match self {
            Res::Ok(v) => {
                let s = format!("{v:?}");
                if s.len() > 120 {
                    format!("Ok({}…)", &s[..120])
                } else {
                    format!("Ok({s})")
                }
            }
            Res::Err(k, m) => format!("Err({k}: {m})"),
            Res::Panic(m) => format!("PANIC({m})"),
            Res::Hang(m) => format!("HANG({m})"),
        }
    }
    pub fn is_failure(&self) -> bool {
        !matches!(self, Res::Ok(_))
    }
}

macro_rules! call_core {
    ($self:ident, $n:expr, |$c:ident| $body:expr) => {{
        let mut $c = $self.nodes[$n].core.take().expect("core present");
        let g = $crate::exec::run(async { $body });
        match g {
            $crate::exec::Guarded::Panic(_) | $crate::exec::Guarded::Hang(_) => {
                let _ = std::panic::catch_unwind(std::panic::AssertUnwindSafe(move || drop($c)));
                $self.nodes[$n].dead = true;
            }
            _ => {
                $self.nodes[$n].core = Some($c);
            }
        }
        g
    }};
}
pub(crate) use call_core;

pub async fn open_core(
    disk: &Disk,
    key: Option<PartialKeypair>,
    cache: CacheMode,
) -> Result<Hypercore, HypercoreError> {
    let storage = disk.storage().await?;
    let mut b = HypercoreBuilder::new(storage);
    b = match key {
        Some(k) => b.key_pair(k),
        None => b.open(true),
    };
    b = match cache {
        CacheMode::Off => b,
        CacheMode::Default => b.node_cache_options(CacheOptionsBuilder::new()),
        CacheMode::Tiny => b.node_cache_options(CacheOptionsBuilder::new().max_capacity(300)),
    };
    b.build().await
}

impl World {
    /// Creates the world; node creation calls are journalled as calls too.
    pub fn new(cfg: Cfg) -> World {
        let key = key_from_seed(cfg.key_seed);
        let mut w = World {
            cfg: cfg.clone(),
            nodes: vec![],
            key,
            truth: Truth::new(),
            reftree: RefTree::new(),
            viols: vec![],
            log: Digest::default(),
            call_no: 0,
            calls: vec![],
            stats: Stats::default(),
            aborted: None,
            cur_step: -1,
            stop_on_fault: false,
            trace_log: vec![],
            keep_trace_log: false,
            distinct_states: Default::default(),
            pool: Default::default(),
            sim_time: 0,
            scratch: None,
            made_read_only: false,
        };
        let scratch = if cfg.backend == crate::disk::Backend::DiskFs {
            static CTR: std::sync::atomic::AtomicU64 = std::sync::atomic::AtomicU64::new(0);
            let c = CTR.fetch_add(1, std::sync::atomic::Ordering::SeqCst);
            let base = if std::path::Path::new("/dev/shm").is_dir() { "/dev/shm".to_string() } else { std::env::temp_dir().to_string_lossy().to_string() };
            let d = std::path::PathBuf::from(format!("{base}/hcsim-{}-{}", std::process::id(), c));
            let _ = std::fs::remove_dir_all(&d);
            std::fs::create_dir_all(&d).expect("scratch dir");
            crate::exec::enable_tokio();
            Some(d)
        } else {
            None
        };
        w.scratch = scratch.clone();
        for n in 0..=(cfg.replicas as usize) {
            let disk = Disk::with_backend(cfg.backend, scratch.as_ref().map(|d| d.join(format!("n{n}"))));
            {
                let mut st = disk.lock();
                st.journaling = true;
                st.yield_mode = cfg.yield_mode;
            }
            w.nodes.push(NodeRt {
                announced: Default::default(),
                became: Default::default(),
                events_lost: false,
                disk,
                core: None,
                model: Model::new(n == 0),
                rx: vec![],
                dead: false,
            });
        }
        w
    }

    /// builds every node's core (separate so that faults can be armed before creation)
    pub fn create_all(&mut self) {
        for n in 0..self.nodes.len() {
            self.create_node(n);
            if self.aborted.is_some() {
                return;
            }
        }
    }

    pub fn create_node(&mut self, n: usize) {
        let kp = PartialKeypair {
            public: self.key.verifying_key(),
            secret: if n == 0 { Some(self.key.clone()) } else { None },
        };
        let c = self.begin_call(n, "create");
        let disk = self.nodes[n].disk.clone();
        let cache = self.cfg.cache;
        let g = exec::run(async { open_core(&disk, Some(kp), cache).await });
        let r = Res::from(g);
        self.logf(|| format!("create n{n} -> {}", brief_unit(&r)));
        match r {
            Res::Ok(core) => {
                self.nodes[n].core = Some(core);
                self.subscribe(n);
                self.end_call(c, true);
            }
            other => {
                let failed_err = matches!(other, Res::Err(..));
                self.end_call(c, false);
                self.calls[c].returned_err = failed_err;
                self.fail_call("create", &other);
            }
        }
    }

    pub fn subscribe(&mut self, n: usize) {
        self.nodes[n].rx.clear();
        let subs = self.cfg.subscribers;
        let node = &mut self.nodes[n];
        if let Some(core) = node.core.as_ref() {
            for _ in 0..subs {
                node.rx.push(core.event_subscribe());
            }
        }
    }

    pub fn logf(&mut self, f: impl FnOnce() -> String) {
        let s = f();
        self.log.str(&s);
        if trace_enabled() {
            eprintln!("[trace] {s}");
        }
        if self.keep_trace_log {
            self.trace_log.push(s);
        }
    }

    pub fn viol(&mut self, clause: &str, msg: String) {
        let step = self.cur_step;
        self.logf(|| format!("VIOL {clause} step {step}: {msg}"));
        self.viols.push(Viol { clause: clause.to_string(), step, msg });
    }

    pub fn begin_call(&mut self, n: usize, label: &str) -> usize {
        crate::exec::wd_touch();
        let c = self.calls.len();
        self.call_no = c as u32;
        let (j0, o0) = {
            let mut st = self.nodes[n].disk.lock();
            st.call = c as u32;
            (st.journal.len(), st.ops)
        };
        self.calls.push(CallSnap {
            node: n as u8,
            step: self.cur_step,
            label: label.to_string(),
            before: if self.cfg.no_snapshots { Model::default() } else { self.nodes[n].model.clone() },
            after: Model::default(),
            j0,
            j1: j0,
            o0,
            o1: o0,
            returned_err: false,
            returned_ok: false,
            crashed: false,
        });
        self.stats.calls += 1;
        c
    }

    /// `applied` = the model was advanced for this call
    pub fn end_call(&mut self, c: usize, ok: bool) {
        let n = self.calls[c].node as usize;
        let (j1, o1) = {
            let st = self.nodes[n].disk.lock();
            (st.journal.len(), st.ops)
        };
        if !self.cfg.no_snapshots {
            self.calls[c].after = self.nodes[n].model.clone();
        }
        self.calls[c].j1 = j1;
        self.calls[c].o1 = o1;
        self.calls[c].returned_ok = ok;
        self.calls[c].returned_err = !ok;
    }

    pub fn fault_fired(&self, n: usize) -> bool {
        self.nodes[n].disk.lock().fail_fired.is_some()
    }

    /// A call the model says must succeed failed. With an injected fault pending on this node
    /// the failure is the expected behaviour (C10 judges it); otherwise it is a C01-class
    /// violation ("call") and the run is aborted because the state is unknown.
    pub fn fail_call<T: std::fmt::Debug>(&mut self, what: &str, r: &Res<T>) {
        let n = self.calls.last().map(|c| c.node as usize).unwrap_or(0);
        let injected = self.fault_fired(n);
        let b = r.brief();
        if injected && matches!(r, Res::Err(..)) {
            self.aborted = Some(format!("injected fault surfaced in {what}: {b}"));
            if !self.nodes[n].dead {
                self.expect_events(n, &format!("failed {what}"), &[]);
            }
            return;
        }
        if matches!(r, Res::Panic(_) | Res::Hang(_)) {
            if let Some(c) = self.calls.last_mut() {
                c.crashed = true;
            }
        }
        let clause = match r {
            Res::Panic(_) => "CALL.panic",
            Res::Hang(_) => "CALL.hang",
            _ => "CALL.err",
        };
        self.viol(clause, format!("{what} must succeed per model, got {b}"));
        self.aborted = Some(format!("{what} failed: {b}"));
    }

    pub fn drain(&mut self, n: usize) -> Vec<Vec<Ev>> {
        let mut out = vec![];
        for rx in self.nodes[n].rx.iter_mut() {
            let mut v = vec![];
            loop {
                match rx.try_recv() {
                    Ok(Event::Get(g)) => v.push(Ev::Get(g.index)),
                    Ok(Event::DataUpgrade(_)) => v.push(Ev::Upgrade),
                    Ok(Event::Have(h)) => v.push(Ev::Have(h.start, h.length, h.drop)),
                    Err(async_broadcast::TryRecvError::Overflowed(_)) => continue,
                    Err(_) => break,
                }
            }
            out.push(v);
        }
        out
    }

    pub fn expect_events(&mut self, n: usize, what: &str, expected: &[Ev]) {
        let got = self.drain(n);
        if let Some(g) = got.first() {
            for e in g {
                if let Ev::Have(s, l, false) = e {
                    if *l < 200_000 {
                        for i in *s..*s + *l {
                            self.nodes[n].announced.insert(i);
                        }
                    }
                }
            }
        }
        for (i, g) in got.iter().enumerate() {
            if g.as_slice() != expected {
                self.viol(
                    "C13.events",
                    format!("{what}: subscriber {i} of node {n} saw {g:?}, expected {expected:?}"),
                );
                break;
            }
        }
    }

    fn blocks_of(&self, step: &Step) -> Vec<Vec<u8>> {
        match step {
            Step::Append { blk, .. } => vec![payload(blk)],
            Step::Batch { blks, .. } => blks.iter().map(payload).collect(),
            Step::Fill { count, size, tag0, .. } => (0..*count)
                .map(|i| payload(&Blk { tag: tag0.wrapping_add(i), len: *size }))
                .collect(),
            _ => vec![],
        }
    }

    pub fn run_steps(&mut self, steps: &[Step]) {
        for (i, s) in steps.iter().enumerate() {
            if self.aborted.is_some() {
                break;
            }
            self.cur_step = i as i64;
            self.exec_step(s);
            if self.stop_on_fault && self.nodes.iter().any(|n| n.disk.lock().fail_fired.is_some())
            {
                break;
            }
        }
        // C13: the union of announced ranges equals the set of blocks that became available
        if self.aborted.is_none() && self.cfg.subscribers > 0 {
            for n in 0..self.nodes.len() {
                let nd = &self.nodes[n];
                if nd.events_lost || nd.dead || nd.disk.lock().fail_fired.is_some() {
                    continue;
                }
                if nd.announced != nd.became {
                    let only_a: Vec<u64> = nd.announced.difference(&nd.became).copied().take(5).collect();
                    let only_b: Vec<u64> = nd.became.difference(&nd.announced).copied().take(5).collect();
                    self.viol(
                        "C13.union",
                        format!("node {n}: announced-but-not-available {only_a:?}, available-but-not-announced {only_b:?}"),
                    );
                }
            }
        }
    }

    pub fn exec_step(&mut self, step: &Step) {
        self.stats.steps += 1;
        let n = step.node() as usize;
        if n >= self.nodes.len() || self.nodes[n].dead || self.nodes[n].core.is_none() {
            self.stats.skipped += 1;
            self.logf(|| format!("skip (node unavailable) {step:?}"));
            return;
        }
        match step {
            Step::Append { .. } | Step::Batch { .. } | Step::Fill { .. } => self.do_append(n, step),
            Step::Clear { start, end, .. } => self.do_clear(n, *start, *end),
            Step::Get { index, .. } => self.do_get(n, *index),
            Step::Has { index, .. } => self.do_has(n, *index),
            Step::Info { .. } => self.do_info(n),
            Step::Reopen { .. } => self.do_reopen(n),
            Step::MakeReadOnly { .. } => self.do_make_read_only(n),
            Step::Sync { req, .. } => crate::repl::do_sync(self, n, req),
            Step::Tamper { req, mutation, .. } => crate::repl::do_tamper(self, n, req, mutation),
            Step::TamperAll { req, .. } => crate::tamper::do_tamper_all(self, n, req),
            Step::RawRequest { block, hash, seek, upgrade, .. } => {
                crate::repl::do_raw_request(self, n, *block, *hash, *seek, *upgrade)
            }
            Step::RawProof { proof, .. } => crate::repl::do_raw_proof(self, n, proof),
            Step::Scan { .. } => {
                self.scan_and_judge(n, "scan");
            }
            Step::BadOpen { .. } => self.do_bad_open(n),
            Step::NetSend { id, to, req } => crate::net::do_send(self, *id, *to as usize, req),
            Step::NetServe { id } => crate::net::do_serve(self, *id),
            Step::NetDeliver { id } => crate::net::do_deliver(self, *id),
            Step::CrashRestart { back, .. } => crate::net::do_crash_restart(self, n, *back),
            Step::Converge => crate::net::do_converge(self),
            Step::SyncBlocks { from, until, skip, .. } => {
                for i in *from..*until {
                    if Some(i) == *skip {
                        continue;
                    }
                    if self.aborted.is_some() || self.nodes[n].core.is_none() {
                        break;
                    }
                    if i % 512 == 0 {
                        crate::exec::wd_touch();
                    }
                    let req = Req { block: Some(i), ..Default::default() };
                    crate::repl::do_sync(self, n, &req);
                }
            }
            Step::Note { what, v } => {
                if what == "sim_time" {
                    self.sim_time = *v;
                } else {
                    *self.stats.probes.entry(what.clone()).or_insert(0) += *v;
                }
            }
        }
        if step.is_mutating() && self.aborted.is_none() {
            match self.cfg.scan {
                ScanMode::None => {}
                _ => {
                    if !self.nodes[n].dead && self.nodes[n].core.is_some() {
                        self.scan_and_judge(n, "post-step");
                    }
                }
            }
            // C12: once a writer has been made read-only its secret key must never reappear in
            // any file, whatever is done with the read-only instance afterwards
            if n == 0 && self.made_read_only && !self.nodes[0].dead {
                self.check_no_secret(0, "later, on the read-only core");
            }
            if self.cfg.judge_tree {
                crate::c05::judge_storage(self, n);
            }
            if self.cfg.judge_layout {
                crate::jsfmt::judge_layout(self, n);
            }
            let d = self.nodes[n].model.digest()
                ^ (self.nodes[n].disk.lock().files[crate::disk::OPLOG].len() as u64)
                    .wrapping_mul(0x9E37_79B9);
            self.distinct_states.insert(d);
        }
    }

    fn do_append(&mut self, n: usize, step: &Step) {
        let blocks = self.blocks_of(step);
        let single = matches!(step, Step::Append { .. });
        let writable = self.nodes[n].model.writable;
        let old_len = self.nodes[n].model.length;
        let c = self.begin_call(n, "append");
        let (ops0, j0) = {
            let st = self.nodes[n].disk.lock();
            (st.ops, st.journal.len())
        };
        let g = if single {
            let b = &blocks[0];
            call_core!(self, n, |core| core.append(b).await)
        } else {
            let bs = &blocks;
            call_core!(self, n, |core| core.append_batch(bs).await)
        };
        let r = Res::from(g);
        let nb = blocks.len();
        self.logf(|| format!("append n{n} x{nb} -> {}", r.brief()));
        self.stats.appends += 1;
        if !writable {
            // C12: refused with NotWritable, nothing changes
            self.end_call(c, false);
            match &r {
                Res::Err("NotWritable", _) => {}
                other => {
                    let b = other.brief();
                    self.viol("C12.notwritable", format!("append on core without secret key returned {b}"));
                    if matches!(other, Res::Ok(_) | Res::Panic(_) | Res::Hang(_)) {
                        self.aborted = Some("append on read-only core did not fail cleanly".into());
                    }
                }
            }
            let (ops1, j1) = {
                let st = self.nodes[n].disk.lock();
                (st.ops, st.journal.len())
            };
            if ops1 != ops0 || j1 != j0 {
                self.viol(
                    "C12.notwritable",
                    format!("refused append issued {} storage ops ({} mutating)", ops1 - ops0, j1 - j0),
                );
            }
            // C13 follows what the call actually did: a refusal announces nothing; if the core
            // (wrongly, C12's clause) accepted the append, the usual two events are due
            match &r {
                Res::Ok(out) if !blocks.is_empty() => {
                    let k = blocks.len() as u64;
                    let exp = vec![Ev::Upgrade, Ev::Have(out.length.saturating_sub(k), k, false)];
                    self.expect_events(n, "append", &exp);
                }
                _ => self.expect_events(n, "refused append", &[]),
            }
            return;
        }
        match r {
            Res::Ok(out) => {
                self.nodes[n].model.append(&blocks);
                for i in old_len..old_len + blocks.len() as u64 {
                    self.nodes[n].became.insert(i);
                }
                if n == 0 {
                    self.truth.append(&blocks);
                    for b in &blocks {
                        self.reftree.push(b);
                    }
                }
                self.end_call(c, true);
                let m = &self.nodes[n].model;
                if out.length != m.length || out.byte_length != m.byte_length {
                    let (ml, mb) = (m.length, m.byte_length);
                    self.viol(
                        "C01.ret",
                        format!(
                            "append outcome ({},{}) but model says ({ml},{mb})",
                            out.length, out.byte_length
                        ),
                    );
                }
                let exp: Vec<Ev> = if blocks.is_empty() {
                    vec![]
                } else {
                    vec![Ev::Upgrade, Ev::Have(old_len, blocks.len() as u64, false)]
                };
                self.expect_events(n, "append", &exp);
            }
            other => {
                // the failure may have happened after the commit point (during the flush)
                let mut after = self.nodes[n].model.clone();
                after.append(&blocks);
                self.end_call(c, false);
                self.calls[c].after = after;
                self.fail_call("append", &other);
            }
        }
    }

    /// normalise a clear range against the model; None = ill-formed here (skipped)
    pub fn norm_clear(&self, n: usize, start: u64, end: u64) -> Option<(u64, u64)> {
        let m = &self.nodes[n].model;
        if m.length == 0 {
            return None;
        }
        // a sparse replica cannot locate the hole (needs tree nodes it lacks): never generated
        if n != 0 && (m.held.len() as u64) < m.length && !self.cfg.replica_clear {
            return None;
        }
        let s = start % m.length;
        let mut e = if end <= s { s + 1 } else { end };
        let cap = m.length + (1 << 17);
        if e > cap {
            e = cap;
        }
        Some((s, e))
    }

    fn do_clear(&mut self, n: usize, start: u64, end: u64) {
        let Some((s, e)) = self.norm_clear(n, start, end) else {
            self.stats.skipped += 1;
            self.logf(|| format!("clear n{n} {start}..{end} skipped (ill-formed here)"));
            return;
        };
        let c = self.begin_call(n, "clear");
        let g = call_core!(self, n, |core| core.clear(s, e).await);
        let r = Res::from(g);
        self.logf(|| format!("clear n{n} {s}..{e} -> {}", r.brief()));
        self.stats.clears += 1;
        match r {
            Res::Ok(()) => {
                self.nodes[n].model.clear(s, e);
                self.end_call(c, true);
                self.expect_events(n, "clear", &[]);
                if e > self.nodes[n].model.length {
                    self.stats.probe("clear_beyond_length");
                }
            }
            Res::Err(kind, msg)
                if n != 0
                    && self.cfg.replica_clear
                    && (self.nodes[n].model.held.len() as u64) < self.nodes[n].model.length
                    && !self.fault_fired(n) =>
            {
                // A sparse replica may lack the tree nodes needed to locate the hole in its data
                // file: the call may fail. No property demands success here; C08 still demands that
                // has() is exact, so the outcome is resolved by observation: all-or-nothing inside
                // the range, nothing outside it (the post-step scan checks the rest).
                self.end_call(c, false);
                self.stats.probe("replica_clear_failed_tolerated");
                let inside: Vec<u64> =
                    self.nodes[n].model.held.range(s..e).map(|(k, _)| *k).collect();
                let still: Vec<bool> = inside
                    .iter()
                    .map(|i| self.nodes[n].core.as_ref().map(|c| c.has(*i)).unwrap_or(false))
                    .collect();
                if still.iter().all(|b| !*b) {
                    self.nodes[n].model.clear(s, e);
                } else if !still.iter().all(|b| *b) {
                    self.viol(
                        "C08.has",
                        format!("failed clear({s},{e}) on a replica ({kind}: {msg}) dropped only part of the range"),
                    );
                    self.nodes[n].model.clear(s, e);
                }
                let _ = self.drain(n);
            }
            other => {
                // the clear may or may not have been logged: both models are admissible for C10
                let mut after = self.nodes[n].model.clone();
                after.clear(s, e);
                self.end_call(c, false);
                self.calls[c].after = after;
                self.fail_call("clear", &other);
            }
        }
    }

    fn do_get(&mut self, n: usize, index: u64) {
        let c = self.begin_call(n, "get");
        let g = call_core!(self, n, |core| core.get(index).await);
        let r = Res::from(g);
        self.logf(|| format!("get n{n} {index} -> {}", r.brief()));
        match r {
            Res::Ok(v) => {
                self.end_call(c, true);
                let exp = self.nodes[n].model.get(index).cloned();
                if v != exp {
                    self.viol(
                        "C01.ret",
                        format!("get({index}) returned {} expected {}", show_opt(&v), show_opt(&exp)),
                    );
                }
                // C13 is judged against what the core itself reported (not held => one Get event),
                // so that a wrong `held` set (C01/C08's clause) is not double-counted here
                let ev: Vec<Ev> = if v.is_none() { vec![Ev::Get(index)] } else { vec![] };
                self.expect_events(n, "get", &ev);
            }
            other => {
                self.end_call(c, false);
                self.fail_call("get", &other);
            }
        }
    }

    fn do_has(&mut self, n: usize, index: u64) {
        let g = {
            let core = self.nodes[n].core.as_ref().unwrap();
            exec::guard_sync(|| core.has(index))
        };
        match g {
            Guarded::Done(v) => {
                self.logf(|| format!("has n{n} {index} -> {v}"));
                let exp = self.nodes[n].model.has(index);
                if v != exp {
                    self.viol("C01.ret", format!("has({index}) returned {v} expected {exp}"));
                    self.viol("C08.has", format!("has({index}) returned {v} expected {exp}"));
                }
                self.expect_events(n, "has", &[]);
            }
            Guarded::Panic(m) | Guarded::Hang(m) => {
                self.viol("CALL.panic", format!("has({index}) panicked: {m}"));
                self.aborted = Some("has panicked".into());
            }
        }
    }

    fn do_info(&mut self, n: usize) {
        let info = self.nodes[n].core.as_ref().unwrap().info();
        self.logf(|| format!("info n{n} -> {info:?}"));
        self.judge_info(n, &info, "info");
        self.expect_events(n, "info", &[]);
    }

    pub fn judge_info(&mut self, n: usize, info: &hypercore::Info, what: &str) {
        let prefix = if n == 0 { "C01" } else { "C03" };
        self.judge_info_as(n, info, what, prefix)
    }

    pub fn judge_info_as(&mut self, n: usize, info: &hypercore::Info, what: &str, prefix: &str) {
        let cl = format!("{prefix}.info");
        let m = self.nodes[n].model.clone();
        if info.length != m.length || info.byte_length != m.byte_length {
            self.viol(
                &cl,
                format!(
                    "{what}: info (length {}, byte_length {}) but model ({}, {})",
                    info.length, info.byte_length, m.length, m.byte_length
                ),
            );
        }
        if info.writeable != m.writable {
            // writability is C12's clause (C01/C03 speak about contents and lengths only)
            self.viol(
                "C12.writeable",
                format!("{what}: writeable {} but model {}", info.writeable, m.writable),
            );
        }
        if info.fork != 0 {
            self.viol(&cl, format!("{what}: fork {} expected 0", info.fork));
        }
        let c = m.contiguous();
        if info.contiguous_length != c {
            self.viol(
                "C08.contig",
                format!("{what}: contiguous_length {} but first missing index is {c}", info.contiguous_length),
            );
        }
    }

    fn do_reopen(&mut self, n: usize) {
        self.stats.reopens += 1;
        let c = self.begin_call(n, "reopen");
        // clean close = drop
        self.nodes[n].rx.clear();
        let old = self.nodes[n].core.take();
        let _ = catch_unwind(AssertUnwindSafe(move || drop(old)));
        if self.nodes[n].disk.lock().files[crate::disk::OPLOG].len() > 8192 {
            self.stats.probe("reopen_with_unflushed_entries");
        }
        let disk = self.nodes[n].disk.clone();
        let cache = self.cfg.cache;
        let g = exec::run(async { open_core(&disk, None, cache).await });
        let r = Res::from(g);
        self.logf(|| format!("reopen n{n} -> {}", brief_unit(&r)));
        match r {
            Res::Ok(core) => {
                // C12: stored public key and writability are recovered
                let pk_ok = core.key_pair().public == self.key.verifying_key();
                let wr = core.key_pair().secret.is_some();
                self.nodes[n].core = Some(core);
                self.subscribe(n);
                self.end_call(c, true);
                if !pk_ok {
                    self.viol("C12.reopen", "reopened core has a different public key".into());
                }
                if wr != self.nodes[n].model.writable {
                    let w = self.nodes[n].model.writable;
                    self.viol("C12.reopen", format!("reopened core writability {wr}, model {w}"));
                }
            }
            other => {
                self.nodes[n].dead = true;
                self.end_call(c, false);
                self.fail_call("reopen", &other);
            }
        }
    }

    fn do_bad_open(&mut self, n: usize) {
        let before = self.files(n);
        let disk = self.nodes[n].disk.clone();
        let kp = PartialKeypair { public: self.key.verifying_key(), secret: Some(self.key.clone()) };
        {
            self.nodes[n].disk.lock().call = u32::MAX;
        }
        let g = exec::run(async {
            let storage = disk.storage().await?;
            HypercoreBuilder::new(storage).key_pair(kp).open(true).build().await
        });
        let r = Res::from(g);
        self.logf(|| format!("bad_open n{n} -> {}", brief_unit(&r)));
        match r {
            Res::Err("BadArgument", _) => {}
            other => {
                let b = brief_unit(&other);
                self.viol("C12.badopen", format!("key_pair(..).open(true) must be rejected with BadArgument, got {b}"));
            }
        }
        if self.files(n) != before {
            self.viol("C12.badopen", "rejected key_pair+open changed the storage".into());
        }
    }

    fn do_make_read_only(&mut self, n: usize) {
        let was = self.nodes[n].model.writable;
        let had_entries = self.nodes[n].disk.lock().files[crate::disk::OPLOG].len() > 8192;
        let c = self.begin_call(n, "make_read_only");
        let g = call_core!(self, n, |core| core.make_read_only().await);
        let r = Res::from(g);
        self.logf(|| format!("make_read_only n{n} -> {}", r.brief()));
        match r {
            Res::Ok(changed) => {
                self.nodes[n].model.writable = false;
                self.end_call(c, true);
                if changed != was {
                    self.viol(
                        "C12.mro",
                        format!("make_read_only returned {changed}, expected {was}"),
                    );
                }
                if was && had_entries {
                    self.stats.probe("mro_with_unflushed_entries");
                }
                if was && n == 0 {
                    self.made_read_only = true;
                }
                self.check_no_secret(n, "after make_read_only");
                self.expect_events(n, "make_read_only", &[]);
            }
            other => {
                let mut after = self.nodes[n].model.clone();
                after.writable = false;
                self.end_call(c, false);
                self.calls[c].after = after;
                self.fail_call("make_read_only", &other);
            }
        }
    }

    /// C12: no file contains the secret seed (or any 12-byte window of it)
    pub fn check_no_secret(&mut self, n: usize, what: &str) {
        let files = self.nodes[n].disk.files();
        if let Some((store, off, w)) = find_secret(&files, &self.key) {
            self.viol(
                "C12.secret",
                format!(
                    "{what}: {} file contains secret key bytes [{w}..{}) at offset {off}",
                    crate::disk::STORE_NAMES[store],
                    w + 12
                ),
            );
        }
    }

    /// indices to probe for the scan
    pub fn scan_indices(&self, n: usize, core_len: u64) -> Vec<u64> {
        let m = &self.nodes[n].model;
        let len = m.length.max(core_len.min(m.length + 64));
        match self.cfg.scan {
            ScanMode::Sampled if len > 600 => {
                let mut v: Vec<u64> = vec![];
                let mut push = |x: u64| {
                    if x < len + 2 {
                        v.push(x)
                    }
                };
                for b in [0u64, 8192, 32768, 65536, 98304] {
                    for d in [-2i64, -1, 0, 1] {
                        let x = b as i64 + d;
                        if x >= 0 {
                            push(x as u64);
                        }
                    }
                }
                for d in 0..4 {
                    push(len.saturating_sub(d));
                    push(len + d);
                }
                // edges of holes
                let mut prev: Option<u64> = None;
                let mut edges = 0;
                for (k, _) in m.held.iter() {
                    if let Some(p) = prev {
                        if *k != p + 1 && edges < 64 {
                            push(p);
                            push(p + 1);
                            push(*k - 1);
                            push(*k);
                            edges += 1;
                        }
                    } else if *k > 0 {
                        push(0);
                        push(*k - 1);
                        push(*k);
                    }
                    prev = Some(*k);
                }
                let mut r = crate::rng::Rng::new(m.digest(), &[len]);
                for _ in 0..48 {
                    push(r.below(len + 1));
                }
                v.sort();
                v.dedup();
                v
            }
            _ => (0..len + 2).collect(),
        }
    }

    /// Full observation of node n compared with its model. Returns true if consistent.
    pub fn scan_and_judge(&mut self, n: usize, what: &str) -> bool {
        let prefix = if n == 0 { "C01" } else { "C03" };
        self.scan_and_judge_as(n, what, prefix)
    }

    pub fn scan_and_judge_as(&mut self, n: usize, what: &str, prefix: &str) -> bool {
        let scan_cl = format!("{prefix}.scan");
        self.stats.scans += 1;
        let before = self.viols.len();
        {
            let mut st = self.nodes[n].disk.lock();
            st.call = u32::MAX;
        }
        let info = self.nodes[n].core.as_ref().unwrap().info();
        self.judge_info_as(n, &info, what, prefix);
        let idx = self.scan_indices(n, info.length);
        let model = self.nodes[n].model.clone();
        // has(): all indices below length plus boundary indices of the following pages (cheap)
        let mut has_probe: Vec<u64> = if matches!(self.cfg.scan, ScanMode::Sampled) && model.length > 600
        {
            let mut v: Vec<u64> = (0..model.length + 2).collect();
            let page = 32768u64;
            let next = (model.length / page + 1) * page;
            for p in [next, next + page, next + 2 * page] {
                for d in [0u64, 1, 31, 32, 1023, 1024, page - 1] {
                    v.push(p + d);
                }
                if p > 0 {
                    v.push(p - 1);
                }
            }
            v
        } else {
            let mut v = idx.clone();
            let page = 32768u64;
            let next = (model.length / page + 1) * page;
            v.extend_from_slice(&[next - 1, next, next + 1, next + page, 1 << 32, (1 << 40) - 1]);
            v
        };
        has_probe.sort();
        has_probe.dedup();
        let mut bad_has = 0;
        for i in has_probe {
            let g = {
                let core = self.nodes[n].core.as_ref().unwrap();
                exec::guard_sync(|| core.has(i))
            };
            match g {
                Guarded::Done(h) => {
                    if h != model.has(i) && bad_has < 3 {
                        bad_has += 1;
                        let e = model.has(i);
                        self.viol("C08.has", format!("{what}: has({i}) = {h}, model {e}"));
                        self.viol(&scan_cl, format!("{what}: has({i}) = {h}, model {e}"));
                    }
                }
                Guarded::Panic(m) | Guarded::Hang(m) => {
                    self.viol("CALL.panic", format!("{what}: has({i}) panicked: {m}"));
                    self.aborted = Some("has panicked".into());
                    return false;
                }
            }
        }
        let mut bad_get = 0;
        for i in idx {
            let g = call_core!(self, n, |core| core.get(i).await);
            let r = Res::from(g);
            match r {
                Res::Ok(v) => {
                    let exp = model.get(i);
                    if v.as_ref() != exp && bad_get < 3 {
                        bad_get += 1;
                        self.viol(
                            &scan_cl,
                            format!("{what}: get({i}) = {}, model {}", show_opt(&v), show_opt(&exp.cloned())),
                        );
                    }
                }
                other => {
                    let b = other.brief();
                    if matches!(other, Res::Err(..)) && self.fault_fired(n) {
                        // not judged here
                    }
                    self.viol(&scan_cl, format!("{what}: get({i}) failed: {b}"));
                    if self.nodes[n].dead {
                        self.aborted = Some(format!("get({i}) died: {b}"));
                        return false;
                    }
                    bad_get += 1;
                    if bad_get >= 3 {
                        break;
                    }
                }
            }
        }
        let _ = self.drain(n);
        self.viols.len() == before
    }

    pub fn files(&self, n: usize) -> Files {
        self.nodes[n].disk.files()
    }
}

pub fn trace_enabled() -> bool {
    static T: std::sync::OnceLock<bool> = std::sync::OnceLock::new();
    *T.get_or_init(|| std::env::var("HCSIM_TRACE").is_ok())
}

pub fn brief_unit<T>(r: &Res<T>) -> String {
    match r {
        Res::Ok(_) => "Ok".into(),
        Res::Err(k, m) => format!("Err({k}: {m})"),
        Res::Panic(m) => format!("PANIC({m})"),
        Res::Hang(m) => format!("HANG({m})"),
    }
}

pub fn show_opt(v: &Option<Vec<u8>>) -> String {
    match v {
        None => "None".into(),
        Some(b) => {
            let n = b.len().min(8);
            format!("Some(len {} {:02x?}{})", b.len(), &b[..n], if b.len() > n { "…" } else { "" })
        }
    }
}

/// Finds a 12-byte window of the 32-byte secret seed in any file.
pub fn find_secret(files: &Files, key: &SigningKey) -> Option<(usize, usize, usize)> {
    let seed = key.to_bytes();
    for (s, f) in files.iter().enumerate() {
        if f.len() < 12 {
            continue;
        }
        for w in 0..=(32 - 12) {
            let needle = &seed[w..w + 12];
            // quick filter on first byte
            let first = needle[0];
            let mut i = 0;
            while i + 12 <= f.len() {
                if f[i] == first && &f[i..i + 12] == needle {
                    return Some((s, i, w));
                }
                i += 1;
            }
        }
    }
    None
}

pub fn mk_request(
    block: Option<(u64, u64)>,
    hash: Option<(u64, u64)>,
    seek: Option<u64>,
    upgrade: Option<(u64, u64)>,
) -> (Option<RequestBlock>, Option<RequestBlock>, Option<RequestSeek>, Option<RequestUpgrade>) {
    (
        block.map(|(index, nodes)| RequestBlock { index, nodes }),
        hash.map(|(index, nodes)| RequestBlock { index, nodes }),
        seek.map(|bytes| RequestSeek { bytes }),
        upgrade.map(|(start, length)| RequestUpgrade { start, length }),
    )
}

#[allow(dead_code)]
pub fn proof_brief(p: &Proof) -> String {
    format!(
        "Proof{{fork {}, block {:?}, hash {:?}, seek {:?}, upgrade {:?}}}",
        p.fork,
        p.block.as_ref().map(|b| (b.index, b.value.len(), b.nodes.len())),
        p.hash.as_ref().map(|h| (h.index, h.nodes.len())),
        p.seek.as_ref().map(|s| (s.bytes, s.nodes.len())),
        p.upgrade.as_ref().map(|u| (u.start, u.length, u.nodes.len(), u.additional_nodes.len()))
    )
}

#[allow(dead_code)]
pub fn unused_ft() -> u64 {
    ft::parent(0)
}
