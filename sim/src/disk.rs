//! SimDisk: the storage seam. Four growable byte vectors per node behind Arc<Mutex<..>> so they
//! survive dropping the core ("process death"); journal of mutating ops; op counter with a
//! single-shot I/O fault; optional yield (Pending once) before every op as a preemption point.
//! Semantics copied from random-access-memory / random-access-disk (they agree).

use hypercore::{Storage, StorageTraits, Store};
use random_access_storage::{RandomAccess, RandomAccessError};
use serde::{Deserialize, Serialize};
use std::future::Future;
use std::pin::Pin;
use std::sync::{Arc, Mutex};
use std::task::{Context, Poll};

pub const TREE: usize = 0;
pub const DATA: usize = 1;
pub const BITFIELD: usize = 2;
pub const OPLOG: usize = 3;
pub const STORE_NAMES: [&str; 4] = ["tree", "data", "bitfield", "oplog"];

pub type Files = [Vec<u8>; 4];
/// per-file size limit of the simulated disk
pub const QUOTA: u64 = 1 << 28;

#[derive(Clone, Debug, Serialize, Deserialize, PartialEq)]
pub enum JKind {
    Write { off: u64, data: Vec<u8> },
    Del { off: u64, len: u64 },
    Truncate { len: u64 },
}

#[derive(Clone, Debug, Serialize, Deserialize, PartialEq)]
pub struct JOp {
    pub store: u8,
    pub kind: JKind,
    /// call mark (index of the public call that issued it)
    pub call: u32,
}

impl JOp {
    pub fn brief(&self) -> String {
        let s = STORE_NAMES[self.store as usize];
        match &self.kind {
            JKind::Write { off, data } => format!("{s}.write@{off}+{}", data.len()),
            JKind::Del { off, len } => format!("{s}.del@{off}+{len}"),
            JKind::Truncate { len } => format!("{s}.truncate({len})"),
        }
    }
}

pub fn apply(files: &mut Files, op: &JOp) {
    let f = &mut files[op.store as usize];
    match &op.kind {
        JKind::Write { off, data } => write_at(f, *off, data),
        JKind::Del { off, len } => {
            let l = f.len() as u64;
            if *off > l || *len == 0 {
                return;
            }
            if off + len >= l {
                f.truncate(*off as usize);
            } else {
                for b in &mut f[*off as usize..(*off + *len) as usize] {
                    *b = 0;
                }
            }
        }
        JKind::Truncate { len } => f.resize(*len as usize, 0),
    }
}

fn write_at(f: &mut Vec<u8>, off: u64, data: &[u8]) {
    let end = off as usize + data.len();
    if f.len() < end {
        f.resize(end, 0);
    }
    f[off as usize..end].copy_from_slice(data);
}

/// Apply the first byte-prefix `j` of a write op (torn write). Non-write ops are not torn.
pub fn apply_torn(files: &mut Files, op: &JOp, j: usize) {
    if let JKind::Write { off, data } = &op.kind {
        let j = j.min(data.len());
        if j > 0 {
            write_at(&mut files[op.store as usize], *off, &data[..j]);
        }
    }
}

#[derive(Default, Debug, Clone)]
pub struct OpCounts {
    pub write: u64,
    pub read: u64,
    pub del: u64,
    pub truncate: u64,
    pub len: u64,
}

#[derive(Clone, Copy, Debug, Serialize, Deserialize, PartialEq, Eq, Default)]
pub enum Backend {
    /// instrumented in-process backend (journal, faults, yields)
    #[default]
    Sim,
    /// the real random-access-memory crate (kept alive across reopen by an Arc)
    Memory,
    /// the real random-access-disk crate on a scratch directory
    DiskFs,
}

pub type SharedMem = Arc<async_lock::Mutex<random_access_memory::RandomAccessMemory>>;

#[derive(Debug, Default)]
pub struct DiskState {
    pub backend: Backend,
    pub mem: [Option<SharedMem>; 4],
    pub dir: Option<std::path::PathBuf>,
    pub files: Files,
    pub journal: Vec<JOp>,
    pub journaling: bool,
    pub call: u32,
    /// all ops incl. reads and len, since creation (or since reset_ops)
    pub ops: u64,
    pub fail_at: Option<u64>,
    /// (op index, call mark, description) of the fault that fired
    pub fail_fired: Option<(u64, u32, String)>,
    pub yield_mode: bool,
    pub counts: OpCounts,
    /// global sequence shared with the executor (C15 stamps)
    pub yields: u64,
    pub quota_hits: u64,
}

#[derive(Clone, Debug)]
pub struct Disk(pub Arc<Mutex<DiskState>>);

impl Disk {
    pub fn new() -> Disk {
        Disk(Arc::new(Mutex::new(DiskState::default())))
    }
    pub fn from_files(files: Files) -> Disk {
        let mut st = DiskState::default();
        st.files = files;
        Disk(Arc::new(Mutex::new(st)))
    }
    pub fn lock(&self) -> std::sync::MutexGuard<'_, DiskState> {
        match self.0.lock() {
            Ok(g) => g,
            Err(p) => p.into_inner(),
        }
    }
    pub fn files(&self) -> Files {
        let (backend, mem, dir) = {
            let st = self.lock();
            (st.backend, st.mem.clone(), st.dir.clone())
        };
        match backend {
            Backend::Sim => self.lock().files.clone(),
            Backend::Memory => {
                let mut out: Files = Default::default();
                for (i, m) in mem.iter().enumerate() {
                    if let Some(m) = m {
                        let m = m.clone();
                        if let crate::exec::Guarded::Done(v) = crate::exec::run(async move {
                            let mut g = m.lock().await;
                            let l = g.len().await.unwrap_or(0);
                            g.read(0, l).await.unwrap_or_default()
                        }) {
                            out[i] = v;
                        }
                    }
                }
                out
            }
            Backend::DiskFs => {
                let mut out: Files = Default::default();
                if let Some(d) = dir {
                    for (i, name) in STORE_NAMES.iter().enumerate() {
                        out[i] = std::fs::read(d.join(name)).unwrap_or_default();
                    }
                }
                out
            }
        }
    }
    pub fn with_backend(backend: Backend, dir: Option<std::path::PathBuf>) -> Disk {
        let d = Disk::new();
        {
            let mut st = d.lock();
            st.backend = backend;
            st.dir = dir;
        }
        d
    }
    pub fn set_call(&self, c: u32) {
        self.lock().call = c;
    }
    pub fn journal_len(&self) -> usize {
        self.lock().journal.len()
    }
    pub fn ops(&self) -> u64 {
        self.lock().ops
    }
    pub async fn storage(&self) -> Result<Storage, hypercore::HypercoreError> {
        let d = self.clone();
        Storage::open(
            move |store: Store| {
                let d = d.clone();
                let f: Pin<
                    Box<
                        dyn Future<Output = Result<Box<dyn StorageTraits + Send>, RandomAccessError>>
                            + Send,
                    >,
                > = Box::pin(async move {
                    let idx = match store {
                        Store::Tree => TREE,
                        Store::Data => DATA,
                        Store::Bitfield => BITFIELD,
                        Store::Oplog => OPLOG,
                    };
                    let (backend, dir) = {
                        let st = d.lock();
                        (st.backend, st.dir.clone())
                    };
                    match backend {
                        Backend::Sim => Ok(Box::new(SimFile { disk: d, store: idx }) as Box<dyn StorageTraits + Send>),
                        Backend::Memory => {
                            let inner = {
                                let mut st = d.lock();
                                st.mem[idx]
                                    .get_or_insert_with(|| {
                                        Arc::new(async_lock::Mutex::new(
                                            random_access_memory::RandomAccessMemory::default(),
                                        ))
                                    })
                                    .clone()
                            };
                            Ok(Box::new(MemFile { inner }) as Box<dyn StorageTraits + Send>)
                        }
                        Backend::DiskFs => {
                            let path = dir.expect("scratch dir").join(STORE_NAMES[idx]);
                            let f = random_access_disk::RandomAccessDisk::open(path).await?;
                            Ok(Box::new(f) as Box<dyn StorageTraits + Send>)
                        }
                    }
                });
                f
            },
            false,
        )
        .await
    }
}

#[derive(Debug)]
pub struct SimFile {
    disk: Disk,
    store: usize,
}

struct YieldOnce(bool);
impl Future for YieldOnce {
    type Output = ();
    fn poll(mut self: Pin<&mut Self>, cx: &mut Context<'_>) -> Poll<()> {
        if self.0 {
            Poll::Ready(())
        } else {
            self.0 = true;
            cx.waker().wake_by_ref();
            Poll::Pending
        }
    }
}

fn io_err(what: &str) -> RandomAccessError {
    RandomAccessError::IO {
        return_code: Some(5),
        context: Some(format!("injected fault: {what}")),
        source: std::io::Error::new(std::io::ErrorKind::Other, "injected I/O error (EIO)"),
    }
}

impl SimFile {
    async fn enter(&self, what: &str) -> Result<(), RandomAccessError> {
        let y = {
            let mut st = self.disk.lock();
            if st.yield_mode {
                st.yields += 1;
            }
            st.yield_mode
        };
        if y {
            YieldOnce(false).await;
        }
        let mut st = self.disk.lock();
        let idx = st.ops;
        st.ops += 1;
        if st.fail_at == Some(idx) {
            let call = st.call;
            st.fail_fired = Some((idx, call, format!("{}.{}", STORE_NAMES[self.store], what)));
            return Err(io_err(what));
        }
        Ok(())
    }
}

#[async_trait::async_trait]
impl RandomAccess for SimFile {
    async fn write(&mut self, offset: u64, data: &[u8]) -> Result<(), RandomAccessError> {
        self.enter("write").await?;
        if offset.saturating_add(data.len() as u64) > QUOTA {
            // simulated full disk: a real file would become sparse, a Vec would exhaust memory
            self.disk.lock().quota_hits += 1;
            return Err(io_err("write beyond the simulated disk quota (ENOSPC)"));
        }
        let mut st = self.disk.lock();
        st.counts.write += 1;
        let op = JOp {
            store: self.store as u8,
            kind: JKind::Write { off: offset, data: data.to_vec() },
            call: st.call,
        };
        apply(&mut st.files, &op);
        if st.journaling {
            st.journal.push(op);
        }
        Ok(())
    }

    async fn read(&mut self, offset: u64, length: u64) -> Result<Vec<u8>, RandomAccessError> {
        self.enter("read").await?;
        let mut st = self.disk.lock();
        st.counts.read += 1;
        let f = &st.files[self.store];
        if offset + length > f.len() as u64 {
            return Err(RandomAccessError::OutOfBounds {
                offset,
                end: Some(offset + length),
                length: f.len() as u64,
            });
        }
        Ok(f[offset as usize..(offset + length) as usize].to_vec())
    }

    async fn del(&mut self, offset: u64, length: u64) -> Result<(), RandomAccessError> {
        self.enter("del").await?;
        let mut st = self.disk.lock();
        st.counts.del += 1;
        let l = st.files[self.store].len() as u64;
        if offset > l {
            return Err(RandomAccessError::OutOfBounds { offset, end: None, length: l });
        }
        if length == 0 {
            return Ok(());
        }
        let op = JOp {
            store: self.store as u8,
            kind: JKind::Del { off: offset, len: length },
            call: st.call,
        };
        apply(&mut st.files, &op);
        if st.journaling {
            st.journal.push(op);
        }
        Ok(())
    }

    async fn truncate(&mut self, length: u64) -> Result<(), RandomAccessError> {
        self.enter("truncate").await?;
        if length > QUOTA {
            self.disk.lock().quota_hits += 1;
            return Err(io_err("truncate beyond the simulated disk quota (ENOSPC)"));
        }
        let mut st = self.disk.lock();
        st.counts.truncate += 1;
        let op = JOp {
            store: self.store as u8,
            kind: JKind::Truncate { len: length },
            call: st.call,
        };
        apply(&mut st.files, &op);
        if st.journaling {
            st.journal.push(op);
        }
        Ok(())
    }

    async fn len(&mut self) -> Result<u64, RandomAccessError> {
        self.enter("len").await?;
        let mut st = self.disk.lock();
        st.counts.len += 1;
        Ok(st.files[self.store].len() as u64)
    }

    async fn is_empty(&mut self) -> Result<bool, RandomAccessError> {
        self.enter("is_empty").await?;
        let st = self.disk.lock();
        Ok(st.files[self.store].is_empty())
    }

    async fn sync_all(&mut self) -> Result<(), RandomAccessError> {
        Ok(())
    }
}

/// Files after the first `k` journal ops (from empty stores), optionally followed by the first
/// `tear` bytes of op k.
pub fn materialize(journal: &[JOp], k: usize, tear: Option<usize>) -> Files {
    let mut files: Files = Default::default();
    for op in &journal[..k] {
        apply(&mut files, op);
    }
    if let Some(j) = tear {
        if k < journal.len() {
            apply_torn(&mut files, &journal[k], j);
        }
    }
    files
}

/// the real in-memory backend, shared so that it survives close and reopen
#[derive(Debug)]
pub struct MemFile {
    inner: SharedMem,
}

#[async_trait::async_trait]
impl RandomAccess for MemFile {
    async fn write(&mut self, offset: u64, data: &[u8]) -> Result<(), RandomAccessError> {
        self.inner.lock().await.write(offset, data).await
    }
    async fn read(&mut self, offset: u64, length: u64) -> Result<Vec<u8>, RandomAccessError> {
        self.inner.lock().await.read(offset, length).await
    }
    async fn del(&mut self, offset: u64, length: u64) -> Result<(), RandomAccessError> {
        self.inner.lock().await.del(offset, length).await
    }
    async fn truncate(&mut self, length: u64) -> Result<(), RandomAccessError> {
        self.inner.lock().await.truncate(length).await
    }
    async fn len(&mut self) -> Result<u64, RandomAccessError> {
        self.inner.lock().await.len().await
    }
    async fn is_empty(&mut self) -> Result<bool, RandomAccessError> {
        self.inner.lock().await.is_empty().await
    }
    async fn sync_all(&mut self) -> Result<(), RandomAccessError> {
        self.inner.lock().await.sync_all().await
    }
}
