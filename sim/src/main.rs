fn main(){}
