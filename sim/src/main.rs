mod c05;
mod c14;
mod c15;
mod crash;
mod disk;
mod exec;
mod gen;
mod harness;
mod jsfmt;
mod merkle;
mod model;
mod net;
mod props;
mod repl;
mod rng;
mod tamper;
mod world;

use harness::RunOpts;
use std::time::Instant;

fn usage() -> ! {
    eprintln!("usage: hcsim check <ID> [--tier quick|thorough] [--seed N] | hcsim replay <file> [--quiet] | hcsim selfcheck determinism");
    std::process::exit(2);
}

fn on_timeout(prop: &str, label: &str, replay_json: &str) {
    if std::env::var("HCSIM_HANG_DEBUG").is_ok() {
        // developer aid: show where the threads are before giving up
        let pid = std::process::id().to_string();
        let out = std::process::Command::new("gdb")
            .args(["-p", &pid, "-batch", "-ex", "thread apply all bt 25"])
            .output();
        if let Ok(o) = out {
            eprintln!("{}", String::from_utf8_lossy(&o.stdout));
        }
    }
    // a call never returned within the wall limit: persist the pre-written trace and stop
    let dir = harness::verif_dir().join("replays");
    let _ = std::fs::create_dir_all(&dir);
    let safe: String = label.chars().map(|c| if c.is_ascii_alphanumeric() { c } else { '_' }).collect();
    let p = dir.join(format!("{prop}-hang-{safe}.json"));
    let case: serde_json::Value = serde_json::from_str(replay_json).unwrap_or(serde_json::Value::Null);
    let rf = serde_json::json!({
        "property": prop, "seed": 0, "tier": "hang", "clause": "HANG.wall",
        "message": format!("a call consumed the CPU-time limit without returning ({label})"),
        "step": -1, "log_hash": 0, "minimised": false, "original_steps": 0, "case": case,
    });
    let _ = std::fs::write(&p, serde_json::to_string_pretty(&rf).unwrap());
    if std::env::var("HCSIM_REPLAY_MODE").is_ok() {
        println!("REPRODUCED clause=HANG.wall (call did not return)");
        std::process::exit(1);
    }
    // Same rule as for every other violation: it is only reported if replaying the recorded
    // case in a fresh process reproduces it. (A stall that does not replay has been seen once,
    // in a cache arm of C14; cause unknown, possibly inside a dependency.)
    let exe = std::env::current_exe().unwrap();
    let st = std::process::Command::new(exe).arg("replay").arg(&p).arg("--quiet").status();
    if matches!(&st, Ok(s) if s.code() == Some(1)) {
        println!("violation detail: clause=HANG.wall {label}: a call into the crate consumed the CPU-time limit without returning");
        println!("VIOLATION property={prop} replay={}", p.display());
        std::process::exit(1);
    }
    static UNCONFIRMED: std::sync::atomic::AtomicU64 = std::sync::atomic::AtomicU64::new(0);
    let n = UNCONFIRMED.fetch_add(1, std::sync::atomic::Ordering::SeqCst) + 1;
    eprintln!("harness note: a call in {label} consumed the CPU-time limit, but replaying the case in a fresh process returns normally; not reported (occurrence {n})");
    let _ = std::fs::remove_file(&p);
    if n >= 3 {
        eprintln!("harness error: repeated stalls that do not replay");
        std::process::exit(2);
    }
}

fn main() {
    let args: Vec<String> = std::env::args().collect();
    if args.len() < 2 {
        usage();
    }
    exec::install_panic_hook();
    let workers: usize = std::env::var("HCSIM_WORKERS")
        .ok()
        .and_then(|s| s.parse().ok())
        .unwrap_or_else(|| std::thread::available_parallelism().map(|n| n.get()).unwrap_or(4).min(16));
    match args[1].as_str() {
        "check" => {
            if args.len() < 3 {
                usage();
            }
            let prop = args[2].to_uppercase();
            let mut tier = std::env::var("VERIF_TIER").unwrap_or_else(|_| "quick".into());
            let mut seed: u64 =
                std::env::var("VERIF_SEED").ok().and_then(|s| s.parse().ok()).unwrap_or(1);
            let mut i = 3;
            while i < args.len() {
                match args[i].as_str() {
                    "--tier" => {
                        tier = args.get(i + 1).cloned().unwrap_or_else(|| usage());
                        i += 1;
                    }
                    "--seed" => {
                        seed = args.get(i + 1).and_then(|s| s.parse().ok()).unwrap_or_else(|| usage());
                        i += 1;
                    }
                    _ => usage(),
                }
                i += 1;
            }
            if tier != "quick" && tier != "thorough" {
                usage();
            }
            let hang_limit = std::env::var("HCSIM_HANG_S").ok().and_then(|s| s.parse().ok()).unwrap_or(40);
            exec::start_watchdog(workers, hang_limit, on_timeout);
            let opts = RunOpts {
                prop: prop.clone(),
                tier: tier.clone(),
                seed,
                workers,
                max_reports: 3,
                wall_limit_s: std::env::var("HCSIM_WALL_S").ok().and_then(|s| s.parse().ok()).unwrap_or(0),
            };
            println!("hcsim check {prop} tier={tier} VERIF_SEED={seed} workers={workers}");
            // scratch directories of disk arms left behind by a killed earlier process
            if let Ok(rd) = std::fs::read_dir("/dev/shm") {
                for e in rd.flatten() {
                    let name = e.file_name().to_string_lossy().to_string();
                    if let Some(rest) = name.strip_prefix("hcsim-") {
                        if let Some(pid) = rest.split('-').next().and_then(|p| p.parse::<u32>().ok()) {
                            if pid != std::process::id() && !std::path::Path::new(&format!("/proc/{pid}")).exists() {
                                let _ = std::fs::remove_dir_all(e.path());
                                let _ = std::fs::remove_file(e.path());
                            }
                        }
                    }
                }
            }
            let t0 = Instant::now();
            let code = props::check(&opts, t0);
            std::process::exit(code);
        }
        "replay" => {
            if args.len() < 3 {
                usage();
            }
            let quiet = args.iter().any(|a| a == "--quiet");
            std::env::set_var("HCSIM_REPLAY_MODE", "1");
            let hang_limit = std::env::var("HCSIM_HANG_S").ok().and_then(|s| s.parse().ok()).unwrap_or(40);
            exec::start_watchdog(1, hang_limit, on_timeout);
            exec::set_worker(0);
            let (rf, out, same) = harness::replay(&args[2]);
            if !quiet {
                println!("replay {}: property={} clause={} recorded_log_hash={:016x} now={:016x}", args[2], rf.property, rf.clause, rf.log_hash, out.log_hash);
                for v in &out.viols {
                    println!("  violation clause={} step={}: {}", v.clause, v.step, v.msg);
                }
            }
            if same {
                if !quiet {
                    println!("REPRODUCED clause={} log_hash_equal={}", rf.clause, rf.log_hash == out.log_hash);
                    println!("VIOLATION property={} replay={}", rf.property, args[2]);
                }
                std::process::exit(1);
            } else {
                if !quiet {
                    println!("NOT-REPRODUCED (the recorded violation does not occur on this tree)");
                }
                std::process::exit(0);
            }
        }
        "c14-arm" => {
            exec::set_worker(0);
            std::process::exit(c14::arm_main(args.get(2).map(|s| s.as_str()).unwrap_or("")));
        }
        "hash" => {
            let prop = args.get(2).cloned().unwrap_or_default();
            let seed = args.get(3).and_then(|s| s.parse().ok()).unwrap_or(1);
            let wk = args.get(4).and_then(|s| s.parse().ok()).unwrap_or(workers);
            exec::start_watchdog(wk, 120, on_timeout);
            std::process::exit(props::print_hash(&prop, seed, wk));
        }
        "selfcheck" => {
            let code = props::selfcheck(args.get(2).map(|s| s.as_str()).unwrap_or("determinism"), workers);
            std::process::exit(code);
        }
        _ => usage(),
    }
}
