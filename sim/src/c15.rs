//! W3 shared-core world (C15).
use crate::harness::CaseOut;
use serde::{Deserialize, Serialize};
#[derive(Clone, Debug, Serialize, Deserialize, PartialEq, Default)]
pub struct SharedSpec {}
pub fn run_shared(_s: &SharedSpec) -> CaseOut {
    CaseOut::default()
}
