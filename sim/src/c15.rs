//! W3 shared-core world (C15): 2-4 tasks drive one `SharedCore` concurrently on a single-threaded
//! executor whose poll order is the schedule; SimDisk yields (Pending once) before every storage
//! operation and the async mutex parks waiters, so every storage op and lock acquisition is a
//! preemption point. The recorded invoke/return history is checked for linearizability
//! (Wing-Gong search) against sequential models.

use crate::disk::Disk;
use crate::exec::{self, SchedOutcome, Task, TaskWaker};
use crate::harness::{Body, Case, CaseOut};
use crate::merkle::RefTree;
use crate::model::{payload, Blk};
use crate::rng::Rng;
use crate::world::{key_from_seed, open_core, CacheMode, Viol};
use ed25519_dalek::{Signature, Verifier};
use hypercore::replication::{CoreInfo, CoreMethods, ReplicationMethods, SharedCore};
use hypercore::{PartialKeypair, Proof, RequestBlock, RequestUpgrade};
use serde::{Deserialize, Serialize};
use std::cell::{Cell, RefCell};
use std::collections::{BTreeMap, BTreeSet};
use std::rc::Rc;
use std::sync::atomic::AtomicBool;
use std::sync::Arc;

#[derive(Clone, Debug, Serialize, Deserialize, PartialEq)]
pub enum Op {
    Append(Blk),
    Batch(Vec<Blk>),
    Get(u64),
    Has(u64),
    Info,
    /// create_proof(block {index, nodes 0})
    ProofBlock(u64),
    /// create_proof(upgrade {start 0, length})
    ProofUpgrade(u64),
    MissingNodes(u64),
    /// clear through the public mutex (SharedCore.0.lock().await.clear(..))
    Clear(u64, u64),
    /// verify_and_apply_proof(pool[k]) on a replica
    Apply(u32),
}

#[derive(Clone, Debug, Serialize, Deserialize, PartialEq)]
pub enum Sched {
    Random { seed: u64 },
    Pct { seed: u64, d: u32 },
    /// explicit choices (index into the ready list at each step; beyond the end: first ready)
    Path(Vec<u8>),
    /// depth-first enumeration of all schedules up to `cap`
    Dfs { cap: u32 },
}

#[derive(Clone, Debug, Serialize, Deserialize, PartialEq)]
pub struct SharedSpec {
    pub key_seed: u64,
    pub replica: bool,
    /// blocks appended (and flushed or not) before the concurrent phase; for a replica: the writer's log
    pub prelude: Vec<Blk>,
    /// second growth of the writer (replica role): an upgrade-only proof L1 -> L2
    pub prelude2: Vec<Blk>,
    pub tasks: Vec<Vec<Op>>,
    pub sched: Sched,
    /// force async-lock's fair hand-off: every task that parks on the mutex really waits longer
    /// than the 500 us starvation threshold
    #[serde(default)]
    pub starve: bool,
}

impl Default for SharedSpec {
    fn default() -> Self {
        SharedSpec { key_seed: 1, replica: false, prelude: vec![], prelude2: vec![], tasks: vec![], sched: Sched::Random { seed: 0 }, starve: false }
    }
}

#[derive(Clone, Debug, PartialEq)]
pub enum ResAbs {
    Appended(u64, u64),
    Got(Option<Vec<u8>>),
    Has(bool),
    Info(u64, u64),
    /// Some(proof): length the signature verifies for (None if no upgrade section), block bytes ok
    ProofSome { sig_len: Option<u64>, block: Option<(u64, Vec<u8>)> },
    ProofNone,
    Missing(u64),
    Cleared,
    Accepted,
    Refused,
    Err(String),
}

#[derive(Clone, Debug)]
pub struct Rec {
    pub task: usize,
    pub op: Op,
    pub inv: u64,
    pub ret: u64,
    pub res: ResAbs,
    pub raw_sig: Option<Vec<u8>>,
}

// ------------------------------------------------------------------------- sequential models

#[derive(Clone, Debug, PartialEq, Eq, Hash, PartialOrd, Ord)]
pub struct SeqState {
    pub blocks: Vec<Option<Vec<u8>>>, // None = cleared (writer) / not held (replica)
    pub sizes: Vec<u64>,
    pub length: u64,
    pub byte_length: u64,
}

pub struct PoolInfo {
    /// per pool proof: (upgrade start -> target length/bytes) and block (index, bytes), needed length
    pub upgrade: Option<(u64, u64, u64)>,
    pub block: Option<(u64, Vec<u8>)>,
    pub needs_len: u64,
}

/// expected abstract result of `op` applied at `st` (writer role), mutating `st`
fn seq_apply(st: &mut SeqState, op: &Op, replica: bool, pool: &[PoolInfo]) -> Vec<ResAbs> {
    match op {
        Op::Append(_) | Op::Batch(_) if replica => vec![ResAbs::Err("NotWritable".into())],
        Op::Append(b) => {
            let d = payload(b);
            st.byte_length += d.len() as u64;
            st.sizes.push(d.len() as u64);
            st.blocks.push(Some(d));
            st.length += 1;
            vec![ResAbs::Appended(st.length, st.byte_length)]
        }
        Op::Batch(bs) => {
            for b in bs {
                let d = payload(b);
                st.byte_length += d.len() as u64;
                st.sizes.push(d.len() as u64);
                st.blocks.push(Some(d));
                st.length += 1;
            }
            vec![ResAbs::Appended(st.length, st.byte_length)]
        }
        Op::Get(i) => vec![ResAbs::Got(st.blocks.get(*i as usize).cloned().flatten())],
        Op::Has(i) => vec![ResAbs::Has(st.blocks.get(*i as usize).map(|b| b.is_some()).unwrap_or(false))],
        Op::Info => vec![ResAbs::Info(st.length, st.byte_length)],
        Op::ProofBlock(i) => {
            if st.length == 0 {
                vec![ResAbs::Err("any".into())]
            } else {
                match st.blocks.get(*i as usize).cloned().flatten() {
                    Some(b) if *i < st.length => vec![ResAbs::ProofSome { sig_len: None, block: Some((*i, b)) }],
                    _ => vec![ResAbs::ProofNone, ResAbs::Err("any".into())],
                }
            }
        }
        Op::ProofUpgrade(k) => {
            if *k == 0 || *k > st.length {
                vec![ResAbs::Err("any".into())]
            } else {
                vec![ResAbs::ProofSome { sig_len: Some(st.length), block: None }]
            }
        }
        Op::MissingNodes(_) => vec![ResAbs::Missing(u64::MAX)], // value not modelled, only Ok-ness
        Op::Clear(s, e) => {
            for i in *s..(*e).min(st.length) {
                st.blocks[i as usize] = None;
            }
            vec![ResAbs::Cleared]
        }
        Op::Apply(k) => {
            let p = &pool[*k as usize % pool.len().max(1)];
            if let Some((start, tlen, tbytes)) = p.upgrade {
                if st.length == start {
                    st.length = tlen;
                    st.byte_length = tbytes;
                    st.blocks.resize(tlen as usize, None);
                    if let Some((i, b)) = &p.block {
                        st.blocks[*i as usize] = Some(b.clone());
                    }
                    vec![ResAbs::Accepted]
                } else if st.length == tlen {
                    // a duplicate of an upgrade the replica already has verifies again and
                    // changes nothing (its block, if any, is simply stored again)
                    if let Some((i, b)) = &p.block {
                        st.blocks[*i as usize] = Some(b.clone());
                    }
                    vec![ResAbs::Accepted]
                } else {
                    // any other length: refused (or accepted without effect); never a change
                    vec![ResAbs::Refused, ResAbs::Accepted]
                }
            } else if st.length >= p.needs_len {
                if let Some((i, b)) = &p.block {
                    st.blocks[*i as usize] = Some(b.clone());
                }
                vec![ResAbs::Accepted]
            } else {
                vec![ResAbs::Refused]
            }
        }
    }
}

fn res_matches(expected: &[ResAbs], got: &ResAbs) -> bool {
    expected.iter().any(|e| match (e, got) {
        (ResAbs::Err(_), ResAbs::Err(_)) => true,
        (ResAbs::Missing(_), ResAbs::Missing(_)) => true,
        (ResAbs::ProofSome { block: eb, .. }, ResAbs::ProofSome { sig_len: None, block: gb }) => eb == gb,
        (a, b) => a == b,
    })
}

/// Wing-Gong linearizability search with memoisation on (linearised set, state).
pub fn linearizable(recs: &[Rec], init: &SeqState, replica: bool, pool: &[PoolInfo]) -> (bool, u64) {
    let n = recs.len();
    assert!(n <= 24);
    let mut seen: BTreeSet<(u32, SeqState)> = BTreeSet::new();
    let mut explored = 0u64;
    fn go(
        recs: &[Rec],
        done: u32,
        st: &SeqState,
        replica: bool,
        pool: &[PoolInfo],
        seen: &mut BTreeSet<(u32, SeqState)>,
        explored: &mut u64,
    ) -> bool {
        let n = recs.len();
        if done == (1u32 << n) - 1 {
            return true;
        }
        if !seen.insert((done, st.clone())) {
            return false;
        }
        *explored += 1;
        // minimal ops: not done, and no other not-done op returned before its invocation
        let min_ret = (0..n).filter(|i| done >> i & 1 == 0).map(|i| recs[i].ret).min().unwrap();
        for i in 0..n {
            if done >> i & 1 == 1 || recs[i].inv > min_ret {
                continue;
            }
            let mut s2 = st.clone();
            let exp = seq_apply(&mut s2, &recs[i].op, replica, pool);
            if res_matches(&exp, &recs[i].res) && go(recs, done | 1 << i, &s2, replica, pool, seen, explored) {
                return true;
            }
        }
        false
    }
    let ok = go(recs, 0, init, replica, pool, &mut seen, &mut explored);
    (ok, explored)
}

// ------------------------------------------------------------------------- execution

struct Built {
    shared: SharedCore,
    disk: Disk,
    init: SeqState,
    pool: Vec<Proof>,
    pool_info: Vec<PoolInfo>,
    writer_blocks: Vec<Vec<u8>>,
}

fn build(spec: &SharedSpec) -> Result<Built, String> {
    let key = key_from_seed(spec.key_seed);
    let disk = Disk::new();
    let kp_w = PartialKeypair { public: key.verifying_key(), secret: Some(key.clone()) };
    let pre: Vec<Vec<u8>> = spec.prelude.iter().map(payload).collect();
    let pre2: Vec<Vec<u8>> = spec.prelude2.iter().map(payload).collect();
    let res = exec::run(async {
        if !spec.replica {
            let mut core = open_core(&disk, Some(kp_w), CacheMode::Off).await.map_err(|e| e.to_string())?;
            for b in &pre {
                core.append(b).await.map_err(|e| e.to_string())?;
            }
            let mut st = SeqState { blocks: vec![], sizes: vec![], length: 0, byte_length: 0 };
            for b in &pre {
                st.byte_length += b.len() as u64;
                st.sizes.push(b.len() as u64);
                st.blocks.push(Some(b.clone()));
                st.length += 1;
            }
            Ok::<Built, String>(Built {
                shared: SharedCore::from_hypercore(core),
                disk: disk.clone(),
                init: st,
                pool: vec![],
                pool_info: vec![],
                writer_blocks: pre.clone(),
            })
        } else {
            // companion writer and a scratch replica manufacture an honest proof pool
            let wdisk = Disk::new();
            let mut writer = open_core(&wdisk, Some(kp_w), CacheMode::Off).await.map_err(|e| e.to_string())?;
            if !pre.is_empty() {
                writer.append_batch(&pre).await.map_err(|e| e.to_string())?;
            }
            let kp_r = PartialKeypair { public: key.verifying_key(), secret: None };
            let sdisk = Disk::new();
            let mut scratch = open_core(&sdisk, Some(kp_r.clone()), CacheMode::Off).await.map_err(|e| e.to_string())?;
            let l1 = pre.len() as u64;
            let b1: u64 = pre.iter().map(|b| b.len() as u64).sum();
            let mut pool = vec![];
            let mut info = vec![];
            if l1 > 0 {
                // P0: upgrade 0 -> L1 with block 0
                let p0 = writer
                    .create_proof(Some(RequestBlock { index: 0, nodes: 0 }), None, None, Some(RequestUpgrade { start: 0, length: l1 }))
                    .await
                    .map_err(|e| e.to_string())?
                    .ok_or("no proof")?;
                scratch.verify_and_apply_proof(&p0).await.map_err(|e| e.to_string())?;
                pool.push(p0);
                info.push(PoolInfo { upgrade: Some((0, l1, b1)), block: Some((0, pre[0].clone())), needs_len: 0 });
                // block-only proofs against the just-upgraded state (not applied to scratch)
                for i in 1..l1.min(6) {
                    let nodes = scratch.missing_nodes(i).await.map_err(|e| e.to_string())?;
                    let p = writer
                        .create_proof(Some(RequestBlock { index: i, nodes }), None, None, None)
                        .await
                        .map_err(|e| e.to_string())?
                        .ok_or("no proof")?;
                    pool.push(p);
                    info.push(PoolInfo { upgrade: None, block: Some((i, pre[i as usize].clone())), needs_len: l1 });
                }
                if !pre2.is_empty() {
                    writer.append_batch(&pre2).await.map_err(|e| e.to_string())?;
                    let l2 = l1 + pre2.len() as u64;
                    let b2 = b1 + pre2.iter().map(|b| b.len() as u64).sum::<u64>();
                    let p = writer
                        .create_proof(None, None, None, Some(RequestUpgrade { start: l1, length: l2 - l1 }))
                        .await
                        .map_err(|e| e.to_string())?
                        .ok_or("no proof")?;
                    pool.push(p);
                    info.push(PoolInfo { upgrade: Some((l1, l2, b2)), block: None, needs_len: l1 });
                }
            }
            let replica = open_core(&disk, Some(kp_r), CacheMode::Off).await.map_err(|e| e.to_string())?;
            let mut wb = pre.clone();
            wb.extend(pre2.iter().cloned());
            Ok(Built {
                shared: SharedCore::from_hypercore(replica),
                disk: disk.clone(),
                init: SeqState { blocks: vec![], sizes: vec![], length: 0, byte_length: 0 },
                pool,
                pool_info: info,
                writer_blocks: wb,
            })
        }
    });
    match res {
        exec::Guarded::Done(r) => r,
        exec::Guarded::Panic(m) | exec::Guarded::Hang(m) => Err(format!("setup died: {m}")),
    }
}

async fn do_op(shared: &SharedCore, op: &Op, pool: &[Proof]) -> (ResAbs, Option<Proof>) {
    match op {
        Op::Append(b) => match shared.append(&payload(b)).await {
            Ok(o) => (ResAbs::Appended(o.length, o.byte_length), None),
            Err(e) => (ResAbs::Err(e.to_string()), None),
        },
        Op::Batch(bs) => {
            let v: Vec<Vec<u8>> = bs.iter().map(payload).collect();
            match shared.append_batch(v).await {
                Ok(o) => (ResAbs::Appended(o.length, o.byte_length), None),
                Err(e) => (ResAbs::Err(e.to_string()), None),
            }
        }
        Op::Get(i) => match shared.get(*i).await {
            Ok(v) => (ResAbs::Got(v), None),
            Err(e) => (ResAbs::Err(e.to_string()), None),
        },
        Op::Has(i) => (ResAbs::Has(shared.has(*i).await), None),
        Op::Info => {
            let i = shared.info().await;
            (ResAbs::Info(i.length, i.byte_length), None)
        }
        Op::ProofBlock(i) => match shared.create_proof(Some(RequestBlock { index: *i, nodes: 0 }), None, None, None).await {
            Ok(Some(p)) => (ResAbs::ProofSome { sig_len: None, block: p.block.as_ref().map(|b| (b.index, b.value.clone())) }, Some(p)),
            Ok(None) => (ResAbs::ProofNone, None),
            Err(e) => (ResAbs::Err(e.to_string()), None),
        },
        Op::ProofUpgrade(k) => match shared.create_proof(None, None, None, Some(RequestUpgrade { start: 0, length: *k })).await {
            Ok(Some(p)) => (ResAbs::ProofSome { sig_len: None, block: None }, Some(p)),
            Ok(None) => (ResAbs::ProofNone, None),
            Err(e) => (ResAbs::Err(e.to_string()), None),
        },
        Op::MissingNodes(i) => match shared.missing_nodes(*i).await {
            Ok(v) => (ResAbs::Missing(v), None),
            Err(e) => (ResAbs::Err(e.to_string()), None),
        },
        Op::Clear(s, e) => {
            let mut g = shared.0.lock().await;
            match g.clear(*s, *e).await {
                Ok(()) => (ResAbs::Cleared, None),
                Err(e) => (ResAbs::Err(e.to_string()), None),
            }
        }
        Op::Apply(k) => {
            if pool.is_empty() {
                return (ResAbs::Refused, None);
            }
            let p = &pool[*k as usize % pool.len()];
            match shared.verify_and_apply_proof(p).await {
                Ok(true) => (ResAbs::Accepted, None),
                Ok(false) | Err(_) => (ResAbs::Refused, None),
            }
        }
    }
}

pub struct OneRun {
    pub viols: Vec<Viol>,
    pub schedule: Vec<u32>,
    pub choices: Vec<u8>,
    pub widths: Vec<u8>,
    pub preemptions: u64,
    pub lin_states: u64,
    pub log: u64,
    pub steps: u64,
    pub tainted: bool,
    pub retries: u32,
}

enum Chooser {
    Random(Rng),
    Pct { prio: Vec<u64>, changes: Vec<usize>, low: u64 },
    Path(Vec<u8>),
}

/// barging-mode runs that were disturbed by an OS stall are repeated (see exec::SchedOutcome::Tainted)
pub fn run_once(spec: &SharedSpec, sched: &Sched) -> OneRun {
    let mut last = run_once_inner(spec, sched);
    let mut tries = 0;
    while last.tainted && tries < 8 {
        tries += 1;
        last = run_once_inner(spec, sched);
        last.retries = tries;
    }
    last
}

fn run_once_inner(spec: &SharedSpec, sched: &Sched) -> OneRun {
    let mut out = OneRun { viols: vec![], schedule: vec![], choices: vec![], widths: vec![], preemptions: 0, lin_states: 0, log: 0, steps: 0, tainted: false, retries: 0 };
    let built = match build(spec) {
        Ok(b) => b,
        Err(e) => {
            // setup failing is not a concurrency finding
            out.viols.push(Viol { clause: "SETUP".into(), step: -1, msg: e });
            return out;
        }
    };
    built.disk.lock().yield_mode = true;
    let counter = Rc::new(Cell::new(0u64));
    let recs: Rc<RefCell<Vec<Rec>>> = Rc::new(RefCell::new(vec![]));
    let proofs: Rc<RefCell<Vec<(usize, Proof)>>> = Rc::new(RefCell::new(vec![]));
    let pool = Rc::new(built.pool.clone());
    let mut tasks: Vec<Task<'_>> = vec![];
    for (t, ops) in spec.tasks.iter().enumerate() {
        let shared = built.shared.clone();
        let counter = counter.clone();
        let recs = recs.clone();
        let proofs = proofs.clone();
        let pool = pool.clone();
        let ops = ops.clone();
        tasks.push(Task {
            fut: Some(Box::pin(async move {
                for op in ops {
                    counter.set(counter.get() + 1);
                    let inv = counter.get();
                    let (res, proof) = do_op(&shared, &op, &pool).await;
                    counter.set(counter.get() + 1);
                    let ret = counter.get();
                    let idx = recs.borrow().len();
                    if let Some(p) = proof {
                        proofs.borrow_mut().push((idx, p));
                    }
                    recs.borrow_mut().push(Rec { task: t, op, inv, ret, res, raw_sig: None });
                }
            })),
            waker: Arc::new(TaskWaker { ready: AtomicBool::new(true) }),
        });
    }
    let ntasks = tasks.len();
    let mut chooser = match sched {
        Sched::Random { seed } => Chooser::Random(Rng::new(*seed, &[0x5c4ed])),
        Sched::Pct { seed, d } => {
            let mut r = Rng::new(*seed, &[0x9c7]);
            let mut prio: Vec<u64> = (0..ntasks as u64).map(|i| 1000 + i).collect();
            r.shuffle(&mut prio);
            let changes: Vec<usize> = (0..*d).map(|_| r.below(400) as usize).collect();
            Chooser::Pct { prio, changes, low: 999 }
        }
        Sched::Path(p) => Chooser::Path(p.clone()),
        Sched::Dfs { .. } => Chooser::Path(vec![]),
    };
    let counter2 = counter.clone();
    let mut choices: Vec<u8> = vec![];
    let mut widths: Vec<u8> = vec![];
    let mut last: Option<usize> = None;
    let mut preempt = 0u64;
    let (outcome, schedule) = exec::run_tasks(
        &mut tasks,
        |ready, step| {
            counter2.set(counter2.get() + 1);
            let pick_idx = match &mut chooser {
                Chooser::Random(r) => r.below(ready.len() as u64) as usize,
                Chooser::Pct { prio, changes, low } => {
                    if changes.contains(&step) {
                        // demote the currently highest-priority ready task
                        if let Some(&t) = ready.iter().max_by_key(|t| prio[**t]) {
                            prio[t] = *low;
                            *low -= 1;
                        }
                    }
                    let t = *ready.iter().max_by_key(|t| prio[**t]).unwrap();
                    ready.iter().position(|x| *x == t).unwrap()
                }
                Chooser::Path(p) => {
                    let c = p.get(step).copied().unwrap_or(0) as usize;
                    c.min(ready.len() - 1)
                }
            };
            choices.push(pick_idx as u8);
            widths.push(ready.len() as u8);
            let t = ready[pick_idx];
            if let Some(l) = last {
                if l != t && ready.contains(&l) {
                    preempt += 1;
                }
            }
            last = Some(t);
            t
        },
        200_000,
        if spec.starve { Some(std::time::Duration::from_micros(650)) } else { None },
    );
    drop(tasks);
    out.schedule = schedule;
    out.choices = choices;
    out.widths = widths;
    out.preemptions = preempt;
    out.steps = counter.get();
    let mut viol = |clause: &str, msg: String| out.viols.push(Viol { clause: clause.into(), step: -1, msg });
    match outcome {
        SchedOutcome::Tainted => {
            out.tainted = true;
            return out;
        }
        SchedOutcome::AllDone => {}
        SchedOutcome::Deadlock(alive) => {
            viol("C15.deadlock", format!("tasks {alive:?} are blocked forever (no task is runnable)"));
            return out;
        }
        SchedOutcome::Budget => {
            viol("C15.hang", "step budget exhausted".into());
            return out;
        }
        SchedOutcome::Panic(t, m) => {
            viol("C15.panic", format!("task {t} panicked: {m}"));
            return out;
        }
    }
    // final contents (sequentially, no yields)
    built.disk.lock().yield_mode = false;
    let shared = built.shared.clone();
    let fin = exec::run(async {
        let mut g = shared.0.lock().await;
        let info = g.info();
        let mut blocks: Vec<Option<Vec<u8>>> = vec![];
        for i in 0..info.length {
            blocks.push(g.get(i).await.ok().flatten());
        }
        (info.length, info.byte_length, blocks)
    });
    let (flen, fbytes, fblocks) = match fin {
        exec::Guarded::Done(v) => v,
        _ => {
            viol("C15.panic", "reading the final state panicked".into());
            return out;
        }
    };
    let mut recs_v: Vec<Rec> = recs.borrow().clone();
    // abstract created proofs: which length does the signature verify for?
    if !spec.replica {
        // writer: every block is known from the ops (cleared ones from payloads by index is not
        // possible), so take the contents from the sequentially determined order: appended blocks
        // are identified by their append outcome (length after append)
        let mut all: BTreeMap<u64, Vec<u8>> = BTreeMap::new();
        for (i, b) in spec.prelude.iter().enumerate() {
            all.insert(i as u64, payload(b));
        }
        for r in &recs_v {
            if let ResAbs::Appended(len, _) = r.res {
                match &r.op {
                    Op::Append(b) => {
                        all.insert(len - 1, payload(b));
                    }
                    Op::Batch(bs) => {
                        for (k, b) in bs.iter().enumerate() {
                            all.insert(len - bs.len() as u64 + k as u64, payload(b));
                        }
                    }
                    _ => {}
                }
            }
        }
        let appended: u64 = spec.prelude.len() as u64
            + recs_v
                .iter()
                .filter(|r| matches!(r.res, ResAbs::Appended(..)))
                .map(|r| match &r.op {
                    Op::Append(_) => 1,
                    Op::Batch(bs) => bs.len() as u64,
                    _ => 0,
                })
                .sum::<u64>();
        let complete = appended == flen && (0..flen).all(|i| all.contains_key(&i));
        if complete {
            let seq: Vec<Vec<u8>> = (0..flen).map(|i| all[&i].clone()).collect();
            let tree = RefTree::from_blocks(&seq);
            let pk = key_from_seed(spec.key_seed).verifying_key();
            for (idx, p) in proofs.borrow().iter() {
                if let Some(u) = &p.upgrade {
                    let mut found = None;
                    if let Ok(sig) = Signature::from_slice(&u.signature) {
                        for l in 1..=flen {
                            if pk.verify(&tree.signable(l, 0), &sig).is_ok() {
                                found = Some(l);
                                break;
                            }
                        }
                    }
                    // a signature that verifies for no length under the independent reference is
                    // C05's clause (scheme deviation), not a concurrency finding: left unchecked
                    if let ResAbs::ProofSome { sig_len, .. } = &mut recs_v[*idx].res {
                        *sig_len = found;
                    }
                }
            }
            // direct judge: each task's blocks sit at the indices its outcome implies
            for i in 0..flen {
                if let Some(b) = &fblocks[i as usize] {
                    if *b != all[&i] {
                        viol("C15.blocks", format!("block {i} does not hold the bytes of the append whose outcome implies that index"));
                    }
                }
            }
        } else {
            viol("C15.gaps", format!("append outcomes do not cover indices 0..{flen} exactly once"));
        }
    } else {
        for i in 0..flen {
            if let Some(b) = &fblocks[i as usize] {
                if Some(b) != built.writer_blocks.get(i as usize) {
                    viol("C15.blocks", format!("replica block {i} differs from the writer's"));
                }
            }
        }
    }
    let _ = fbytes;
    let n = recs_v.len();
    if n > 24 {
        viol("SETUP", "history too long for the checker".into());
        return out;
    }
    let (ok, explored) = linearizable(&recs_v, &built.init, spec.replica, &built.pool_info);
    out.lin_states = explored;
    if !ok {
        let mut h: Vec<String> = recs_v
            .iter()
            .map(|r| format!("t{} [{}..{}] {:?} -> {}", r.task, r.inv, r.ret, r.op, brief_res(&r.res)))
            .collect();
        h.sort();
        viol(
            "C15.linearizability",
            format!("no sequential order of the calls reproduces the observed results; history: {}", h.join(" | ")),
        );
    }
    let mut d = crate::rng::Digest::default();
    for r in &recs_v {
        d.u64(r.task as u64);
        d.u64(r.inv);
        d.u64(r.ret);
        d.str(&brief_res(&r.res));
    }
    for s in &out.schedule {
        d.u64(*s as u64);
    }
    out.log = d.0;
    out
}

fn brief_res(r: &ResAbs) -> String {
    match r {
        ResAbs::Got(Some(b)) => format!("Got(len {})", b.len()),
        ResAbs::ProofSome { sig_len, block } => {
            format!("Proof(sig for length {:?}, block {:?})", sig_len, block.as_ref().map(|b| (b.0, b.1.len())))
        }
        ResAbs::Err(e) => format!("Err({})", e.chars().take(40).collect::<String>()),
        other => format!("{other:?}"),
    }
}

pub fn run_shared(spec: &SharedSpec) -> CaseOut {
    let mut out = CaseOut::default();
    out.nontrivial = false;
    let mut sched_hashes: BTreeSet<u64> = BTreeSet::new();
    let starve = spec.starve;
    let mut push_run = |out: &mut CaseOut, r: &OneRun| {
        out.count("schedules", 1);
        if r.retries > 0 {
            out.count("barging_runs_repeated_after_os_stall", r.retries as u64);
        }
        if r.tainted {
            out.count("barging_runs_abandoned_after_os_stalls", 1);
        }
        if starve {
            out.count("schedules_with_forced_fair_lock_handoff", 1);
        }
        out.count("preemptions", r.preemptions);
        out.count("linearisation_states_explored", r.lin_states);
        out.sim_steps += r.steps;
        let mut d = crate::rng::Digest::default();
        for s in &r.schedule {
            d.u64(*s as u64);
        }
        if sched_hashes.insert(d.0) {
            out.states.insert(d.0);
        }
        if r.preemptions > 0 {
            out.nontrivial = true;
        }
        out.log_hash ^= r.log.rotate_left(7);
    };
    match &spec.sched {
        Sched::Dfs { cap } => {
            let mut path: Vec<u8> = vec![];
            let mut n = 0u32;
            loop {
                let r = run_once(spec, &Sched::Path(path.clone()));
                push_run(&mut out, &r);
                n += 1;
                let real: Vec<Viol> = r.viols.iter().filter(|v| v.clause.starts_with("C15.")).cloned().collect();
                if !real.is_empty() {
                    let mut c = spec.clone();
                    c.sched = Sched::Path(r.choices.clone());
                    out.concrete = Some(Box::new(Case { prop: "C15".into(), family: String::new(), run: 0, body: Body::Shared(c) }));
                    out.viols = real;
                    return out;
                }
                // next path: increment the last position that still has an alternative
                let mut choices = r.choices.clone();
                let widths = r.widths.clone();
                let mut advanced = false;
                while let Some(c) = choices.pop() {
                    let w = widths[choices.len()];
                    if c + 1 < w {
                        choices.push(c + 1);
                        advanced = true;
                        break;
                    }
                }
                if !advanced {
                    out.count("dfs_exhausted", 1);
                    break;
                }
                if n >= *cap {
                    out.count("dfs_capped", 1);
                    break;
                }
                path = choices;
            }
        }
        s => {
            let r = run_once(spec, s);
            push_run(&mut out, &r);
            let real: Vec<Viol> = r.viols.iter().filter(|v| v.clause.starts_with("C15.")).cloned().collect();
            if r.viols.iter().any(|v| v.clause == "SETUP") {
                out.aborted = Some("setup failed".into());
            }
            if !real.is_empty() {
                let mut c = spec.clone();
                c.sched = Sched::Path(r.choices.clone());
                out.concrete = Some(Box::new(Case { prop: "C15".into(), family: String::new(), run: 0, body: Body::Shared(c) }));
                out.viols = real;
            }
        }
    }
    out
}

pub fn gen_spec(r: &mut Rng, idx: u64, small: bool) -> SharedSpec {
    let mut g = crate::gen::G::new(idx);
    let replica = r.chance(1, 4);
    let npre = if replica { r.range(2, 9) } else { r.below(6) };
    let prelude: Vec<Blk> = (0..npre).map(|_| g.blk(r)).map(|mut b| { b.len = b.len.min(40); b }).collect();
    let prelude2: Vec<Blk> = if replica && r.chance(1, 2) { (0..r.range(1, 3)).map(|_| g.blk(r)).map(|mut b| { b.len = b.len.min(40); b }).collect() } else { vec![] };
    let ntasks = if small { 2 } else { r.range(2, 4) as usize };
    let mut tasks = vec![];
    let mut total = 0;
    for _ in 0..ntasks {
        let nops = if small { r.range(1, 2) } else { r.range(1, 4) } as usize;
        let mut ops = vec![];
        for _ in 0..nops {
            if total >= 14 {
                break;
            }
            total += 1;
            let idx_sel = r.below(npre + 6);
            ops.push(if replica {
                match r.below(10) {
                    0..=5 => Op::Apply(r.below(8) as u32),
                    6 => Op::Get(idx_sel),
                    7 => Op::Has(idx_sel),
                    8 => Op::MissingNodes(idx_sel),
                    _ => Op::Info,
                }
            } else {
                match r.below(16) {
                    0..=4 => {
                        let mut b = g.blk(r);
                        b.len = b.len.min(40);
                        Op::Append(b)
                    }
                    5 | 6 => {
                        let k = r.range(0, 3);
                        Op::Batch((0..k).map(|_| { let mut b = g.blk(r); b.len = b.len.min(40); b }).collect())
                    }
                    7 | 8 => Op::Get(idx_sel),
                    9 => Op::Has(idx_sel),
                    10 => Op::Info,
                    11 => Op::ProofBlock(idx_sel),
                    12 | 13 => Op::ProofUpgrade(r.range(1, npre + 4)),
                    14 => Op::MissingNodes(idx_sel),
                    _ => {
                        // start below the prelude length, which every linearisation point exceeds
                        if npre == 0 {
                            Op::Info
                        } else {
                            let s = r.below(npre);
                            Op::Clear(s, s + r.range(1, 3))
                        }
                    }
                }
            });
        }
        tasks.push(ops);
    }
    SharedSpec { key_seed: idx ^ 0xc15, replica, prelude, prelude2, tasks, sched: Sched::Random { seed: r.next() }, starve: false }
}
