//! W2 faulty-network arm: discrete-event network, replicator stub, node crash-restart.
use crate::harness::CaseOut;
use serde::{Deserialize, Serialize};
#[derive(Clone, Debug, Serialize, Deserialize, PartialEq, Default)]
pub struct NetSpec {}
pub fn run_net(_s: &NetSpec) -> CaseOut {
    CaseOut::default()
}
