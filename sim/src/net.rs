//! W2 faulty-network arm: a discrete-event network simulator (seeded latencies, drop, duplicate,
//! reorder, partition/heal, node crash-restart) *generates* an explicit schedule of steps; the
//! world executes it. Safety is judged at every delivery, bounded liveness after the last fault.

use crate::disk;
use crate::exec;
use crate::harness::CaseOut;
use crate::repl::{self, Concrete};
use crate::rng::Rng;
use crate::world::{call_core, mk_request, open_core, Req, Res, Step, World};
use hypercore::Proof;
use serde::{Deserialize, Serialize};

#[derive(Clone, Debug)]
pub enum Msg {
    Request { to: usize, concrete: Concrete, nodes: u64 },
    Response { to: usize, proof: Proof, wlen: u64, wbytes: u64, concrete: Concrete },
}

#[derive(Clone, Debug, Serialize, Deserialize, PartialEq, Default)]
pub struct NetSpec {}
pub fn run_net(_s: &NetSpec) -> CaseOut {
    CaseOut::default()
}

/// replica `to` issues a request derived from its current state
pub fn do_send(w: &mut World, id: u32, to: usize, req: &Req) {
    if to == 0 || to >= w.nodes.len() || w.nodes[to].core.is_none() {
        return;
    }
    let Some(mut c) = repl::normalise(w, to, req) else {
        w.stats.skipped += 1;
        return;
    };
    c.seek = None; // seeks are exercised in the strict arm; here requests may be served late
    c.straddle = false;
    if let Some(j) = c.hash {
        // keep to classes the strict arm shows are served
        let rlen = w.nodes[to].model.length;
        if crate::merkle::ft::left_span(j) / 2 < rlen && crate::merkle::ft::right_span(j) / 2 >= rlen {
            return;
        }
    }
    let mut nodes = 0;
    if let Some(i) = c.block {
        let call = w.begin_call(to, "missing_nodes");
        let g = call_core!(w, to, |core| core.missing_nodes(i).await);
        let r = Res::from(g);
        w.end_call(call, matches!(r, Res::Ok(_)));
        match r {
            Res::Ok(v) => nodes = v,
            other => {
                let b = other.brief();
                w.viol("C03.missing_nodes", format!("missing_nodes({i}) failed: {b}"));
                return;
            }
        }
    } else if let Some(j) = c.hash {
        let call = w.begin_call(to, "missing_nodes");
        let g = call_core!(w, to, |core| core.missing_nodes_from_merkle_tree_index(j).await);
        let r = Res::from(g);
        w.end_call(call, matches!(r, Res::Ok(_)));
        match r {
            Res::Ok(v) => nodes = v,
            other => {
                let b = other.brief();
                w.viol("C03.missing_nodes", format!("missing_nodes(tree {j}) failed: {b}"));
                return;
            }
        }
    }
    let cc = c.clone();
    w.logf(|| format!("net send #{id} from n{to}: {cc:?} nodes {nodes}"));
    w.pool.insert(id, Msg::Request { to, concrete: c, nodes });
}

/// the writer serves request `id` from its current state. The request was well-formed when it
/// was sent; the replica may have moved on since, which only matters at delivery.
pub fn do_serve(w: &mut World, id: u32) {
    let Some(Msg::Request { to, concrete, nodes }) = w.pool.get(&id).cloned() else { return };
    if w.nodes[0].core.is_none() {
        return;
    }
    let (rb, rh, rs, ru) = mk_request(
        concrete.block.map(|i| (i, nodes)),
        concrete.hash.map(|j| (j, nodes)),
        concrete.seek,
        concrete.upgrade,
    );
    let call = w.begin_call(0, "create_proof");
    let g = call_core!(w, 0, |core| core.create_proof(rb, rh, rs, ru).await);
    let r = Res::from(g);
    w.end_call(call, matches!(r, Res::Ok(_)));
    let _ = w.drain(0);
    w.stats.proofs_honest += 1;
    w.logf(|| {
        format!(
            "net serve #{id}: {}",
            match &r {
                Res::Ok(Some(p)) => crate::world::proof_brief(p),
                Res::Ok(None) => "None".into(),
                o => o.brief(),
            }
        )
    });
    match r {
        Res::Ok(Some(p)) => {
            let cleared = concrete.block.map(|i| !w.nodes[0].model.has(i)).unwrap_or(false);
            if cleared {
                w.viol("C03.create", format!("writer served cleared block {:?}", concrete.block));
            }
            let (wlen, wbytes) = (w.truth.len(), w.truth.byte_length());
            w.pool.insert(id, Msg::Response { to, proof: p, wlen, wbytes, concrete });
        }
        Res::Ok(None) => {
            w.stats.proofs_none += 1;
            w.pool.remove(&id);
        }
        Res::Panic(m) | Res::Hang(m) => {
            w.viol("C03.create", format!("create_proof for {concrete:?} died: {m}"));
            w.aborted = Some("writer died".into());
        }
        Res::Err(..) => {
            // the request was honest when sent and the writer only grows: it must be servable
            let b = r.brief();
            w.viol("C03.create", format!("honest request {concrete:?} (nodes {nodes}) not served: {b}"));
            w.pool.remove(&id);
        }
    }
}

/// A response reaches its replica. It may be stale or a duplicate: refusal is fine, a changed
/// belief that is not the writer's truth is not.
pub fn do_deliver(w: &mut World, id: u32) {
    let Some(Msg::Response { to, proof, wlen, wbytes, concrete }) = w.pool.get(&id).cloned() else { return };
    if w.nodes[to].core.is_none() {
        return;
    }
    let before = w.nodes[to].model.clone();
    let call = w.begin_call(to, "verify_and_apply_proof");
    let g = call_core!(w, to, |core| core.verify_and_apply_proof(&proof).await);
    let r = Res::from(g);
    w.logf(|| format!("net deliver #{id} to n{to}: {}", r.brief()));
    let mut after = before.clone();
    if proof.upgrade.is_some() {
        after.length = wlen;
        after.byte_length = wbytes;
    }
    if let Some(b) = &proof.block {
        after.held.insert(b.index, w.truth.blocks[b.index as usize].clone());
    }
    match r {
        Res::Ok(true) => {
            w.stats.proofs_accepted += 1;
            w.nodes[to].model = after;
            if let Some(b) = &proof.block {
                w.nodes[to].became.insert(b.index);
            }
            w.end_call(call, true);
            let ev = repl::proof_events(&proof);
            w.expect_events(to, "accepted proof", &ev);
        }
        Res::Ok(false) | Res::Err(..) => {
            w.end_call(call, false);
            w.calls[call].after = after;
            w.stats.probe("stale_or_duplicate_refused");
            // a stale or duplicated proof may be refused; acceptance of fresh proofs is judged in the
            // strict arm and during convergence
            let _ = &concrete;
            w.expect_events(to, "refused proof", &[]);
        }
        Res::Panic(m) | Res::Hang(m) => {
            w.end_call(call, false);
            w.calls[call].crashed = true;
            w.viol("C03.accept", format!("delivery of honest proof #{id} died: {m}"));
            w.aborted = Some("replica died".into());
            return;
        }
    }
    // safety: whatever happened, the replica is truthful
    if w.nodes[to].core.is_some() {
        w.scan_and_judge_as(to, &format!("after delivery #{id}"), "C03");
    }
}

/// Process death of node n. `back` storage operations of its last mutating call are lost.
pub fn do_crash_restart(w: &mut World, n: usize, back: u32) {
    if w.nodes[n].core.is_none() {
        return;
    }
    w.stats.probe(if n == 0 { "writer_crash_restart" } else { "replica_crash_restart" });
    // last call of this node that journalled something
    let last = w.calls.iter().rposition(|c| c.node as usize == n && c.j1 > c.j0);
    let jlen = w.nodes[n].disk.journal_len();
    let writer_alone = n == 0 && w.nodes.len() == 1;
    let (keep, allowed) = match last {
        Some(ci)
            if back > 0
                && w.calls[ci].j1 == jlen
                && ((n != 0 && w.calls[ci].label == "verify_and_apply_proof")
                    || (writer_alone
                        && matches!(w.calls[ci].label.as_str(), "append" | "clear" | "make_read_only"))) =>
        {
            let c = &w.calls[ci];
            let ops = (c.j1 - c.j0) as u32;
            let b = (back % (ops + 1)) as usize;
            if b > 0 {
                w.stats.probe("crash_mid_call");
            }
            (jlen - b, vec![c.before.clone(), c.after.clone()])
        }
        _ => (jlen, vec![w.nodes[n].model.clone()]),
    };
    let journal = w.nodes[n].disk.lock().journal.clone();
    let files = disk::materialize(&journal, keep, None);
    // restart
    w.nodes[n].rx.clear();
    let old = w.nodes[n].core.take();
    let _ = std::panic::catch_unwind(std::panic::AssertUnwindSafe(move || drop(old)));
    {
        let mut st = w.nodes[n].disk.lock();
        st.files = files;
        st.journal.truncate(keep);
    }
    let d = w.nodes[n].disk.clone();
    let cache = w.cfg.cache;
    let g = exec::run(async { open_core(&d, None, cache).await });
    match Res::from(g) {
        Res::Ok(core) => {
            let mut core = Some(core);
            let upto = allowed.iter().map(|m| m.length).max().unwrap_or(0) + 2;
            let o = crate::crash::observe(&mut core, upto, &w.key.verifying_key());
            let m = allowed.iter().find(|m| o.died.is_none() && crate::crash::diff(&o, m).is_none()).cloned();
            match (m, core) {
                (Some(m), Some(c)) => {
                    if n == 0 && m.length < w.truth.len() {
                        // the interrupted append never happened: the writer's history ends earlier
                        let l = m.length as usize;
                        w.truth.blocks.truncate(l);
                        w.truth.offsets.truncate(l + 1);
                        w.truth.signed.retain(|s| s.0 <= m.length);
                        w.reftree = crate::merkle::RefTree::from_blocks(&w.truth.blocks);
                    }
                    w.nodes[n].model = m;
                    w.nodes[n].core = Some(c);
                    w.subscribe(n);
                    w.logf(|| format!("crash-restart n{n} keep {keep}/{jlen} -> recovered"));
                }
                _ => {
                    // recovery is C02's clause (judged when the run is a C02 multi-crash run)
                    w.viol("C02.multi", format!("crash-restart of node {n} keeping {keep} of {jlen} storage ops: recovered state is neither before nor after the interrupted call"));
                    w.aborted = Some("crash recovery did not give a before-or-after state (C02's clause)".into());
                    w.nodes[n].dead = true;
                }
            }
        }
        other => {
            let b = crate::world::brief_unit(&other);
            w.viol("C02.multi", format!("crash-restart of node {n} keeping {keep} of {jlen} storage ops: reopen failed: {b}"));
            w.logf(|| format!("crash-restart n{n} keep {keep}/{jlen}: reopen failed {b}"));
            w.aborted = Some(format!("reopen after crash failed (C02's clause): {b}"));
            w.nodes[n].dead = true;
        }
    }
}

/// Faults have stopped. The replicator (harness stub) must complete every replica within
/// 3*missing + 10 request rounds.
pub fn do_converge(w: &mut World) {
    w.pool.clear();
    for n in 1..w.nodes.len() {
        if w.nodes[n].core.is_none() || w.aborted.is_some() {
            continue;
        }
        let wanted: Vec<u64> = w.nodes[0].model.held.keys().copied().collect();
        let missing0 = wanted.iter().filter(|i| !w.nodes[n].model.has(**i)).count() as u64
            + (w.truth.len() > w.nodes[n].model.length) as u64;
        let budget = 3 * missing0 + 10;
        let mut rounds = 0u64;
        let mut gave_up = false;
        loop {
            let behind = w.truth.len() > w.nodes[n].model.length;
            let next = wanted.iter().copied().find(|i| !w.nodes[n].model.has(*i));
            if !behind && next.is_none() {
                break;
            }
            if rounds >= budget {
                w.viol(
                    "C03.liveness",
                    format!("replica {n} not complete after {rounds} fault-free request rounds (budget {budget}); still missing {:?}, behind {behind}", next),
                );
                break;
            }
            rounds += 1;
            let req = Req {
                block: next,
                upgrade: if behind { Some(u64::MAX >> 8) } else { None },
                ..Default::default()
            };
            // (u64::MAX>>8) % behind + 1 is some partial length; force full by block beyond or explicit
            let before = w.viols.len();
            repl::do_sync(w, n, &req);
            // only replication failures end the attempt (other judges' clauses are not ours)
            let failed = w.viols[before..].iter().any(|v| v.clause.starts_with("C03."));
            if failed || w.aborted.is_some() {
                gave_up = true;
                break;
            }
        }
        w.stats.probe("converged_replicas");
        if w.aborted.is_none() && w.nodes[n].core.is_some() && !gave_up {
            w.scan_and_judge_as(n, "after convergence", "C03");
            // complete: every block the writer still holds
            for i in &wanted {
                if !w.nodes[n].model.has(*i) {
                    w.viol("C03.liveness", format!("replica {n} ended without block {i}"));
                    break;
                }
            }
        }
    }
}

// ---------------------------------------------------------------------------------------------
// The discrete-event network simulator that produces the explicit schedule.

#[derive(Clone, Debug)]
struct Ev {
    t: u64,
    seq: u64,
    step: Step,
}

/// Generates: initial writer history, then `n_req` requests travelling through a faulty network
/// interleaved with writer growth, clears, crash-restarts and partitions; then heal + converge.
pub fn gen_faulty(r: &mut Rng, g: &mut crate::gen::G, replicas: u8, n_req: u32) -> Vec<Step> {
    let mut q: Vec<Ev> = vec![];
    let mut seq = 0u64;
    let mut push = |q: &mut Vec<Ev>, t: u64, step: Step| {
        seq += 1;
        q.push(Ev { t, seq, step });
    };
    let drop_pct = *r.pick(&[0u64, 5, 15, 30]);
    let dup_pct = *r.pick(&[0u64, 5, 20]);
    let jitter = *r.pick(&[0u64, 3, 20, 100]);
    let mut counts: std::collections::BTreeMap<&'static str, u64> = Default::default();
    // initial log
    let k = r.range(1, 8);
    let blks: Vec<crate::model::Blk> = (0..k).map(|_| g.blk(r)).collect();
    g.len += k;
    push(&mut q, 0, Step::Batch { n: 0, blks });
    // partitions: per replica windows during which nothing crosses
    let horizon = n_req as u64 * 10 + 50;
    let mut parts: Vec<(u8, u64, u64)> = vec![];
    for rep in 1..=replicas {
        if r.chance(1, 3) {
            let a = r.below(horizon);
            let b = a + r.range(5, 80);
            parts.push((rep, a, b));
            *counts.entry("net_partition").or_insert(0) += 1;
        }
    }
    let in_partition = |rep: u8, t: u64| parts.iter().any(|(p, a, b)| *p == rep && t >= *a && t < *b);
    let mut t = 1u64;
    for id in 0..n_req {
        t += r.range(1, 12);
        // background activity
        match r.below(12) {
            0 | 1 => {
                let blk = g.blk(r);
                g.len += 1;
                push(&mut q, t, Step::Append { n: 0, blk });
            }
            2 => {
                let (s, e) = g.clear_range(r);
                push(&mut q, t, Step::Clear { n: 0, start: s, end: e.min(g.len + 1) });
            }
            3 => {
                let n = r.range(1, replicas as u64) as u8;
                push(&mut q, t, Step::CrashRestart { n, back: r.below(6) as u32 });
            }
            4 if r.chance(1, 3) => push(&mut q, t, Step::CrashRestart { n: 0, back: 0 }),
            5 => {
                let n = r.range(1, replicas as u64) as u8;
                push(&mut q, t, Step::Reopen { n });
            }
            _ => {}
        }
        let to = r.range(1, replicas as u64) as u8;
        let req = crate::gen::rand_req(r);
        push(&mut q, t, Step::NetSend { id, to, req });
        // request leg
        let l1 = 1 + r.below(jitter + 1);
        if r.below(100) < drop_pct || in_partition(to, t + l1) {
            *counts.entry("net_drop_request").or_insert(0) += 1;
            continue;
        }
        let ts = t + l1;
        push(&mut q, ts, Step::NetServe { id });
        // response leg
        let l2 = 1 + r.below(jitter + 1);
        if r.below(100) < drop_pct || in_partition(to, ts + l2) {
            *counts.entry("net_drop_response").or_insert(0) += 1;
            continue;
        }
        push(&mut q, ts + l2, Step::NetDeliver { id });
        if l1 + l2 > 12 {
            *counts.entry("net_delay").or_insert(0) += 1;
        }
        if r.below(100) < dup_pct {
            *counts.entry("net_duplicate").or_insert(0) += 1;
            push(&mut q, ts + l2 + r.range(1, 40), Step::NetDeliver { id });
        }
    }
    q.sort_by_key(|e| (e.t, e.seq));
    // reorder measure: deliveries not in id order
    let mut last = 0u32;
    for e in &q {
        if let Step::NetDeliver { id } = e.step {
            if id < last {
                *counts.entry("net_reorder").or_insert(0) += 1;
            }
            last = last.max(id);
        }
    }
    let end = q.last().map(|e| e.t).unwrap_or(0);
    let mut steps: Vec<Step> = q.into_iter().map(|e| e.step).collect();
    for (k, v) in counts {
        steps.push(Step::Note { what: k.to_string(), v });
    }
    steps.push(Step::Note { what: "sim_time".into(), v: end });
    steps.push(Step::Converge);
    steps
}
