//! Independent reference for the Hypercore v10 Merkle scheme: own flat-tree arithmetic (not the
//! `flat-tree` crate), BLAKE2b-256 leaf/parent/tree hashes, signable layout. Trusted base: the
//! `blake2` and `ed25519-dalek` primitives only.

use blake2::digest::consts::U32;
use blake2::{Blake2b, Digest};

type B2 = Blake2b<U32>;
pub type H32 = [u8; 32];

pub mod ft {
    //! flat in-order tree numbering
    pub fn depth(i: u64) -> u32 {
        (!i).trailing_zeros()
    }
    pub fn offset(i: u64) -> u64 {
        let d = depth(i);
        if d >= 63 {
            0
        } else {
            i >> (d + 1)
        }
    }
    pub fn index(depth: u32, offset: u64) -> u64 {
        (offset << (depth + 1)) | ((1u64 << depth) - 1)
    }
    pub fn parent(i: u64) -> u64 {
        index(depth(i) + 1, offset(i) >> 1)
    }
    pub fn sibling(i: u64) -> u64 {
        index(depth(i), offset(i) ^ 1)
    }
    pub fn is_left(i: u64) -> bool {
        offset(i) & 1 == 0
    }
    pub fn left_span(i: u64) -> u64 {
        i + 1 - (1u64 << depth(i))
    }
    pub fn right_span(i: u64) -> u64 {
        i + (1u64 << depth(i)) - 1
    }
    pub fn left_child(i: u64) -> Option<u64> {
        let d = depth(i);
        if d == 0 {
            None
        } else {
            Some(index(d - 1, offset(i) * 2))
        }
    }
    pub fn right_child(i: u64) -> Option<u64> {
        let d = depth(i);
        if d == 0 {
            None
        } else {
            Some(index(d - 1, offset(i) * 2 + 1))
        }
    }
    /// number of leaves under node i
    pub fn leaves(i: u64) -> u64 {
        1u64 << depth(i)
    }
    /// roots of the forest holding `len` leaves, left to right
    pub fn full_roots(len: u64) -> Vec<u64> {
        let mut out = vec![];
        let mut start = 0u64; // leaf index where the next tree starts
        let mut rem = len;
        while rem > 0 {
            let p = 63 - rem.leading_zeros(); // largest power of two <= rem
            let sz = 1u64 << p;
            // root of a tree of sz leaves starting at leaf `start`
            out.push(2 * start + sz - 1);
            start += sz;
            rem -= sz;
        }
        out
    }
    /// does the subtree of node i lie completely inside a log of `len` leaves?
    pub fn exists(i: u64, len: u64) -> bool {
        len > 0 && right_span(i) < 2 * len
    }
}

pub fn leaf_hash(data: &[u8]) -> H32 {
    let mut h = B2::new();
    h.update([0u8]);
    h.update((data.len() as u64).to_le_bytes());
    h.update(data);
    h.finalize().into()
}

pub fn parent_hash(left: &(H32, u64), right: &(H32, u64)) -> H32 {
    let mut h = B2::new();
    h.update([1u8]);
    h.update((left.1 + right.1).to_le_bytes());
    h.update(left.0);
    h.update(right.0);
    h.finalize().into()
}

/// roots: (index, hash, size)
pub fn tree_hash(roots: &[(u64, H32, u64)]) -> H32 {
    let mut h = B2::new();
    h.update([2u8]);
    for (i, hash, size) in roots {
        h.update(hash);
        h.update(i.to_le_bytes());
        h.update(size.to_le_bytes());
    }
    h.finalize().into()
}

/// TREE namespace = BLAKE2b-256( BLAKE2b-256("hypercore") || 0x00 ), computed not copied.
pub fn tree_namespace() -> H32 {
    let mut h = B2::new();
    h.update(b"hypercore");
    let ns: H32 = h.finalize().into();
    let mut h = B2::new();
    h.update(ns);
    h.update([0u8]);
    h.finalize().into()
}

pub fn signable(tree_hash: &H32, length: u64, fork: u64) -> Vec<u8> {
    let mut v = Vec::with_capacity(112);
    v.extend_from_slice(&tree_namespace());
    v.extend_from_slice(tree_hash);
    v.extend_from_slice(&length.to_le_bytes());
    v.extend_from_slice(&fork.to_le_bytes());
    v
}

/// All full nodes of the tree over a block sequence, built incrementally.
#[derive(Clone, Debug, Default)]
pub struct RefTree {
    /// indexed by flat-tree index; None = not a full node (yet)
    pub nodes: Vec<Option<(H32, u64)>>,
    pub len: u64,
}

impl RefTree {
    pub fn new() -> RefTree {
        RefTree { nodes: vec![], len: 0 }
    }
    pub fn from_blocks(blocks: &[Vec<u8>]) -> RefTree {
        let mut t = RefTree::new();
        for b in blocks {
            t.push(b);
        }
        t
    }
    pub fn push(&mut self, data: &[u8]) {
        let i = 2 * self.len;
        if self.nodes.len() < (i + 2) as usize * 2 {
            self.nodes.resize(((i + 2) as usize * 2).max(8), None);
        }
        self.nodes[i as usize] = Some((leaf_hash(data), data.len() as u64));
        self.len += 1;
        // climb while we are a right child with a present left sibling
        let mut cur = i;
        loop {
            if ft::is_left(cur) {
                break;
            }
            let sib = ft::sibling(cur);
            let (Some(l), Some(r)) = (self.nodes[sib as usize], self.nodes[cur as usize]) else {
                break;
            };
            let p = ft::parent(cur);
            if self.nodes.len() <= p as usize {
                self.nodes.resize(p as usize + 1, None);
            }
            self.nodes[p as usize] = Some((parent_hash(&l, &r), l.1 + r.1));
            cur = p;
        }
    }
    pub fn node(&self, i: u64) -> Option<(H32, u64)> {
        self.nodes.get(i as usize).copied().flatten()
    }
    /// roots for a prefix of `len` leaves
    pub fn roots(&self, len: u64) -> Vec<(u64, H32, u64)> {
        ft::full_roots(len)
            .into_iter()
            .map(|i| {
                let (h, s) = self.node(i).expect("reference root present");
                (i, h, s)
            })
            .collect()
    }
    pub fn root_hash(&self, len: u64) -> H32 {
        tree_hash(&self.roots(len))
    }
    pub fn signable(&self, len: u64, fork: u64) -> Vec<u8> {
        signable(&self.root_hash(len), len, fork)
    }
    /// byte offset of the first leaf under node i, and byte size of the subtree
    pub fn byte_span(&self, i: u64, offsets: &[u64]) -> (u64, u64) {
        let l = ft::left_span(i) / 2;
        let r = ft::right_span(i) / 2;
        (offsets[l as usize], offsets[r as usize + 1] - offsets[l as usize])
    }
}

#[cfg(test)]
mod tests {
    use super::*;
    #[test]
    fn ft_basics() {
        assert_eq!(ft::depth(0), 0);
        assert_eq!(ft::depth(1), 1);
        assert_eq!(ft::depth(3), 2);
        assert_eq!(ft::parent(0), 1);
        assert_eq!(ft::parent(2), 1);
        assert_eq!(ft::parent(1), 3);
        assert_eq!(ft::parent(5), 3);
        assert_eq!(ft::sibling(0), 2);
        assert_eq!(ft::sibling(1), 5);
        assert_eq!(ft::left_span(3), 0);
        assert_eq!(ft::right_span(3), 6);
        assert_eq!(ft::full_roots(5), vec![3, 8]);
        assert_eq!(ft::full_roots(7), vec![3, 9, 12]);
        assert_eq!(ft::full_roots(8), vec![7]);
        assert_eq!(ft::left_child(3), Some(1));
        assert_eq!(ft::right_child(3), Some(5));
    }
    #[test]
    fn namespace_matches_published_constant() {
        // published in hypercore JS lib/caps.js output (TREE)
        let expect: [u8; 32] = [
            0x9F, 0xAC, 0x70, 0xB5, 0x0C, 0xA1, 0x4E, 0xFC, 0x4E, 0x91, 0xC8, 0x33, 0xB2, 0x04,
            0xE7, 0x5B, 0x8B, 0x5A, 0xAD, 0x8B, 0x58, 0x81, 0xBF, 0xC0, 0xAD, 0xB5, 0xEF, 0x38,
            0xA3, 0x27, 0x5B, 0x9C,
        ];
        assert_eq!(tree_namespace(), expect);
    }
}
