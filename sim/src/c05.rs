//! C05 judge: raw tree store, header, log entries and proofs against the independent Merkle
//! reference (`merkle::RefTree` over the writer's block sequence).

use crate::disk::{OPLOG, TREE};
use crate::tamper::node_parts;
use crate::world::World;
use ed25519_dalek::{Signature, Verifier};
use hypercore::Proof;

fn verify_sig(w: &World, sig: &[u8], len: u64, fork: u64) -> Result<(), String> {
    if len > w.reftree.len {
        return Err(format!("signature for length {len} beyond the writer's {} blocks", w.reftree.len));
    }
    let s = Signature::from_slice(sig).map_err(|_| format!("signature has {} bytes", sig.len()))?;
    let msg = w.reftree.signable(len, fork);
    w.key
        .verifying_key()
        .verify(&msg, &s)
        .map_err(|_| format!("signature does not verify over namespace||root hash||length {len}||fork {fork}"))
}

pub fn judge_storage(w: &mut World, n: usize) {
    let files = w.files(n);
    let tree = &files[TREE];
    let mut bad = 0;
    // every persisted node equals the scheme's value
    let slots = tree.len() / 40;
    for i in 0..slots {
        let s = &tree[i * 40..i * 40 + 40];
        if s.iter().all(|b| *b == 0) {
            continue;
        }
        let size = u64::from_le_bytes(s[..8].try_into().unwrap());
        let hash = &s[8..40];
        match w.reftree.node(i as u64) {
            Some((h, sz)) => {
                if h != hash || sz != size {
                    bad += 1;
                    if bad <= 3 {
                        w.viol(
                            "C05.tree",
                            format!("node {n}: persisted tree node {i} (size {size}) differs from the reference value (size {sz})"),
                        );
                    }
                }
            }
            None => {
                bad += 1;
                if bad <= 3 {
                    w.viol("C05.tree", format!("node {n}: tree store holds node {i} which is not a full node of the log"));
                }
            }
        }
    }
    if tree.len() % 40 != 0 {
        w.viol("C05.tree", format!("node {n}: tree store length {} is not a multiple of 40", tree.len()));
    }
    let st = match crate::jsfmt::read_store(&files) {
        Ok(s) => s,
        Err(_) => return, // C06's clause
    };
    // header
    let h = &st.header;
    if h.length > 0 {
        if h.length > w.reftree.len {
            w.viol("C05.header", format!("node {n}: header length {} beyond the writer's log", h.length));
        } else {
            let rh = w.reftree.root_hash(h.length);
            if h.root_hash != rh {
                w.viol("C05.header", format!("node {n}: header root_hash differs from the reference tree hash for length {}", h.length));
            }
            if let Err(e) = verify_sig(w, &h.signature, h.length, h.fork) {
                w.viol("C05.signature", format!("node {n}: stored header signature: {e}"));
            }
        }
    }
    // entries
    for e in &st.entries {
        for (i, size, hash) in &e.tree_nodes {
            match w.reftree.node(*i) {
                Some((rh, rs)) if rh == *hash && rs == *size => {}
                _ => {
                    w.viol("C05.tree", format!("node {n}: log entry carries tree node {i} differing from the reference"));
                    break;
                }
            }
        }
        if let Some((fork, _anc, len, sig)) = &e.upgrade {
            if let Err(err) = verify_sig(w, sig, *len, *fork) {
                w.viol("C05.signature", format!("node {n}: log entry upgrade signature: {err}"));
            }
        }
    }
    // after a flush a writer has every full node below its length on disk
    if n == 0 && st.entries.is_empty() && files[OPLOG].len() <= 8192 {
        w.stats.probe("tree_completeness_checked");
        let len = st.length;
        let mut missing = 0;
        for i in 0..(2 * len).saturating_sub(1) {
            if ft_full(i, len) {
                let present = (i as usize + 1) * 40 <= tree.len()
                    && !tree[i as usize * 40..i as usize * 40 + 40].iter().all(|b| *b == 0);
                if !present {
                    missing += 1;
                    if missing <= 2 {
                        w.viol("C05.tree", format!("writer flushed at length {len} but full tree node {i} is not persisted"));
                    }
                }
            }
        }
    }
}

fn ft_full(i: u64, len: u64) -> bool {
    crate::merkle::ft::exists(i, len)
}

pub fn judge_proof(w: &mut World, p: &Proof) {
    let mut check_nodes = |w: &mut World, what: &str, nodes: &Vec<hypercore::Node>| {
        for nd in nodes {
            let (index, len, hash) = node_parts(nd);
            match w.reftree.node(index) {
                Some((h, s)) if h[..] == hash[..] && s == len => {}
                other => {
                    let m = format!(
                        "served proof: {what} node {index} (size {len}) differs from the reference {:?}",
                        other.map(|x| x.1)
                    );
                    w.viol("C05.proof", m);
                    return;
                }
            }
        }
    };
    if let Some(b) = &p.block {
        check_nodes(w, "block", &b.nodes);
        if w.truth.blocks.get(b.index as usize) != Some(&b.value) {
            w.viol("C05.proof", format!("served proof: block {} value differs from the appended bytes", b.index));
        }
    }
    if let Some(h) = &p.hash {
        check_nodes(w, "hash", &h.nodes);
    }
    if let Some(s) = &p.seek {
        check_nodes(w, "seek", &s.nodes);
    }
    if let Some(u) = &p.upgrade {
        check_nodes(w, "upgrade", &u.nodes);
        check_nodes(w, "additional", &u.additional_nodes);
        let len = w.truth.len();
        if let Err(e) = verify_sig(w, &u.signature, len, p.fork) {
            w.viol("C05.signature", format!("served proof: upgrade signature: {e}"));
        }
    }
}
