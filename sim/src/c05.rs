//! C05 judge: raw tree store, header and proofs against the independent Merkle reference.
use crate::world::World;
pub fn judge_storage(_w: &mut World, _n: usize) {}
