//! C05 judge: raw tree store, header and proofs against the independent Merkle reference.
use crate::world::World;
pub fn judge_storage(_w: &mut World, _n: usize) {}

pub fn judge_proof(_w: &mut World, _p: &hypercore::Proof) {}
