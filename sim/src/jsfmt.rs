//! Independent reader and writer for the JavaScript Hypercore 10 on-disk layout (C06), written
//! from the layout rules, not from the crate: own compact-encoding (varint 0xfd/0xfe/0xff,
//! buffers, arrays), own CRC-32 (IEEE, table driven), header slots at 0/4096 chosen by header
//! bits, entries from 8192 with leader `crc32 | len<<2 | partial<<1 | bit`, entry flags 1/2/4/8,
//! bitfield pages of 4096 B little-endian u32 words, tree nodes of 40 B, data concatenation.

use crate::disk::{Files, BITFIELD, DATA, OPLOG, TREE};
use crate::harness::CaseOut;
use crate::merkle::{ft, RefTree, H32};
use crate::model::{payload, Blk, Model};
use crate::world::{Viol, World};
use ed25519_dalek::{Signer, SigningKey, Verifier};
use serde::{Deserialize, Serialize};
use std::collections::BTreeMap;

// ------------------------------------------------------------------------------- primitives

pub fn crc32(data: &[u8]) -> u32 {
    static TABLE: std::sync::OnceLock<[u32; 256]> = std::sync::OnceLock::new();
    let t = TABLE.get_or_init(|| {
        let mut t = [0u32; 256];
        for i in 0..256u32 {
            let mut c = i;
            for _ in 0..8 {
                c = if c & 1 != 0 { 0xEDB88320 ^ (c >> 1) } else { c >> 1 };
            }
            t[i as usize] = c;
        }
        t
    });
    let mut c = 0xFFFF_FFFFu32;
    for b in data {
        c = t[((c ^ *b as u32) & 0xff) as usize] ^ (c >> 8);
    }
    c ^ 0xFFFF_FFFF
}

pub struct Rd<'a> {
    pub b: &'a [u8],
    pub p: usize,
}
impl<'a> Rd<'a> {
    pub fn new(b: &'a [u8]) -> Self {
        Rd { b, p: 0 }
    }
    pub fn u8(&mut self) -> Result<u8, String> {
        let v = *self.b.get(self.p).ok_or("out of data (u8)")?;
        self.p += 1;
        Ok(v)
    }
    pub fn take(&mut self, n: usize) -> Result<&'a [u8], String> {
        if self.p + n > self.b.len() {
            return Err(format!("out of data (need {n} at {})", self.p));
        }
        let s = &self.b[self.p..self.p + n];
        self.p += n;
        Ok(s)
    }
    pub fn uint(&mut self) -> Result<u64, String> {
        let f = self.u8()?;
        Ok(match f {
            0xfd => u16::from_le_bytes(self.take(2)?.try_into().unwrap()) as u64,
            0xfe => u32::from_le_bytes(self.take(4)?.try_into().unwrap()) as u64,
            0xff => u64::from_le_bytes(self.take(8)?.try_into().unwrap()),
            x => x as u64,
        })
    }
    pub fn buffer(&mut self) -> Result<&'a [u8], String> {
        let n = self.uint()? as usize;
        self.take(n)
    }
}

pub fn w_uint(out: &mut Vec<u8>, v: u64) {
    if v <= 0xfc {
        out.push(v as u8);
    } else if v <= 0xffff {
        out.push(0xfd);
        out.extend_from_slice(&(v as u16).to_le_bytes());
    } else if v <= 0xffff_ffff {
        out.push(0xfe);
        out.extend_from_slice(&(v as u32).to_le_bytes());
    } else {
        out.push(0xff);
        out.extend_from_slice(&v.to_le_bytes());
    }
}
pub fn w_buffer(out: &mut Vec<u8>, b: &[u8]) {
    w_uint(out, b.len() as u64);
    out.extend_from_slice(b);
}

// ------------------------------------------------------------------------------- messages

#[derive(Clone, Debug, PartialEq, Default)]
pub struct JsHeader {
    pub key: Vec<u8>,
    pub manifest_pk: Option<Vec<u8>>,
    pub public_key: Vec<u8>,
    pub secret_key: Option<Vec<u8>>,
    pub fork: u64,
    pub length: u64,
    pub root_hash: Vec<u8>,
    pub signature: Vec<u8>,
    pub contiguous_length: u64,
}

#[derive(Clone, Debug, PartialEq, Default)]
pub struct JsEntry {
    pub tree_nodes: Vec<(u64, u64, H32)>,
    pub upgrade: Option<(u64, u64, u64, Vec<u8>)>, // fork, ancestors, length, signature
    pub bitfield: Option<(bool, u64, u64)>,        // drop, start, length
    pub partial: bool,
    pub byte_length: usize,
}

pub fn decode_header(b: &[u8]) -> Result<JsHeader, String> {
    let mut r = Rd::new(b);
    let version = r.u8()?;
    if version != 1 {
        return Err(format!("header version {version}"));
    }
    let flags = r.u8()?;
    if flags & 1 != 0 {
        return Err("external header not supported".into());
    }
    let mut h = JsHeader { key: r.take(32)?.to_vec(), ..Default::default() };
    if flags & 2 != 0 {
        let mv = r.u8()?; // manifest version
        let hash = r.u8()?;
        let ty = r.u8()?;
        if mv != 0 || hash != 0 || ty != 1 {
            return Err(format!("manifest version/hash/type {mv}/{hash}/{ty}"));
        }
        let sig = r.u8()?;
        if sig != 0 {
            return Err("manifest signer signature id".into());
        }
        let _namespace = r.take(32)?;
        h.manifest_pk = Some(r.take(32)?.to_vec());
    }
    if flags & 4 != 0 {
        h.public_key = r.buffer()?.to_vec();
        let sk = r.buffer()?;
        h.secret_key = if sk.is_empty() { None } else { Some(sk.to_vec()) };
    }
    // userData: array of { key: string, value: buffer }
    let n = r.uint()?;
    for _ in 0..n {
        let _k = r.buffer()?;
        let _v = r.buffer()?;
    }
    h.fork = r.uint()?;
    h.length = r.uint()?;
    h.root_hash = r.buffer()?.to_vec();
    h.signature = r.buffer()?.to_vec();
    // hints: reorgs array of {from, to, ancestors}, contiguousLength
    let n = r.uint()?;
    for _ in 0..n {
        r.uint()?;
        r.uint()?;
        r.uint()?;
    }
    h.contiguous_length = r.uint()?;
    Ok(h)
}

pub fn encode_header(h: &JsHeader) -> Vec<u8> {
    let mut o = vec![1u8, 2 | 4];
    o.extend_from_slice(&h.key);
    // manifest: version 0, hash blake2b (0), type single signer (1), signer: ed25519 (0), namespace, pk
    o.extend_from_slice(&[0, 0, 1, 0]);
    o.extend_from_slice(&DEFAULT_NAMESPACE);
    o.extend_from_slice(h.manifest_pk.as_ref().unwrap_or(&h.public_key));
    w_buffer(&mut o, &h.public_key);
    match &h.secret_key {
        Some(sk) => w_buffer(&mut o, sk),
        None => w_uint(&mut o, 0),
    }
    w_uint(&mut o, 0); // userData
    w_uint(&mut o, h.fork);
    w_uint(&mut o, h.length);
    w_buffer(&mut o, &h.root_hash);
    w_buffer(&mut o, &h.signature);
    w_uint(&mut o, 0); // reorgs
    w_uint(&mut o, h.contiguous_length);
    o
}

// published default signer namespace (hypercore lib/caps.js DEFAULT_NAMESPACE)
pub const DEFAULT_NAMESPACE: [u8; 32] = [
    0x41, 0x44, 0xEE, 0xA5, 0x31, 0xE4, 0x83, 0xD5, 0x4E, 0x0C, 0x14, 0xF4, 0xCA, 0x68, 0xE0, 0x64,
    0x4F, 0x35, 0x53, 0x43, 0xFF, 0x6F, 0xCB, 0x0F, 0x00, 0x52, 0x00, 0xE1, 0x2C, 0xD7, 0x47, 0xCB,
];

pub fn decode_entry(b: &[u8]) -> Result<JsEntry, String> {
    let mut r = Rd::new(b);
    let flags = r.u8()?;
    let mut e = JsEntry::default();
    if flags & 1 != 0 {
        let n = r.uint()?;
        for _ in 0..n {
            let _k = r.buffer()?;
            let _v = r.buffer()?;
        }
    }
    if flags & 2 != 0 {
        let n = r.uint()?;
        for _ in 0..n {
            let index = r.uint()?;
            let size = r.uint()?;
            let hash: H32 = r.take(32)?.try_into().unwrap();
            e.tree_nodes.push((index, size, hash));
        }
    }
    if flags & 4 != 0 {
        let fork = r.uint()?;
        let ancestors = r.uint()?;
        let length = r.uint()?;
        let sig = r.buffer()?.to_vec();
        e.upgrade = Some((fork, ancestors, length, sig));
    }
    if flags & 8 != 0 {
        let f = r.u8()?;
        let start = r.uint()?;
        let length = r.uint()?;
        e.bitfield = Some((f & 1 != 0, start, length));
    }
    Ok(e)
}

pub fn encode_entry(e: &JsEntry) -> Vec<u8> {
    let mut o = vec![0u8];
    let mut flags = 0u8;
    if !e.tree_nodes.is_empty() {
        flags |= 2;
        w_uint(&mut o, e.tree_nodes.len() as u64);
        for (i, s, h) in &e.tree_nodes {
            w_uint(&mut o, *i);
            w_uint(&mut o, *s);
            o.extend_from_slice(h);
        }
    }
    if let Some((fork, anc, len, sig)) = &e.upgrade {
        flags |= 4;
        w_uint(&mut o, *fork);
        w_uint(&mut o, *anc);
        w_uint(&mut o, *len);
        w_buffer(&mut o, sig);
    }
    if let Some((drop, start, len)) = &e.bitfield {
        flags |= 8;
        o.push(if *drop { 1 } else { 0 });
        w_uint(&mut o, *start);
        w_uint(&mut o, *len);
    }
    o[0] = flags;
    o
}

/// frame = crc32(len word || payload) LE, (len<<2 | partial<<1 | header bit) LE, payload
pub fn frame(payload: &[u8], header_bit: bool, partial: bool) -> Vec<u8> {
    let word: u32 = ((payload.len() as u32) << 2) | if partial { 2 } else { 0 } | header_bit as u32;
    let mut body = word.to_le_bytes().to_vec();
    body.extend_from_slice(payload);
    let mut o = crc32(&body).to_le_bytes().to_vec();
    o.extend_from_slice(&body);
    o
}

/// (header bit, partial, payload, total bytes) or None when there is no valid record here
pub fn unframe(b: &[u8]) -> Option<(bool, bool, &[u8], usize)> {
    if b.len() < 8 {
        return None;
    }
    let ck = u32::from_le_bytes(b[0..4].try_into().unwrap());
    let word = u32::from_le_bytes(b[4..8].try_into().unwrap());
    let len = (word >> 2) as usize;
    if len == 0 || b.len() - 8 < len {
        return None;
    }
    if crc32(&b[4..8 + len]) != ck {
        return None;
    }
    Some((word & 1 == 1, word & 2 == 2, &b[8..8 + len], 8 + len))
}

// ------------------------------------------------------------------------------- reader

#[derive(Clone, Debug, Default)]
pub struct JsState {
    pub header: JsHeader,
    pub header_slot: u8,
    pub header_bit: bool,
    pub entries: Vec<JsEntry>,
    pub entries_bytes: usize,
    pub length: u64,
    pub fork: u64,
    pub byte_length: u64,
    pub signature: Vec<u8>,
    pub held: BTreeMap<u64, Vec<u8>>,
    pub bits: std::collections::BTreeSet<u64>,
    pub nodes: BTreeMap<u64, (u64, H32)>,
    pub stale_entries_skipped: bool,
    pub partial_dropped: usize,
}

fn file_node(tree: &[u8], i: u64) -> Option<(u64, H32)> {
    let off = (i as usize).checked_mul(40)?;
    if off + 40 > tree.len() {
        return None;
    }
    let size = u64::from_le_bytes(tree[off..off + 8].try_into().unwrap());
    let hash: H32 = tree[off + 8..off + 40].try_into().unwrap();
    if hash == [0u8; 32] {
        return None;
    }
    Some((size, hash))
}

/// Open the four files the way the JavaScript implementation does and reconstruct the log.
pub fn read_store(files: &Files) -> Result<JsState, String> {
    let oplog = &files[OPLOG];
    let h1 = unframe(&oplog[..oplog.len().min(4096)])
        .and_then(|(bit, _, p, _)| decode_header(p).ok().map(|h| (bit, h)));
    let h2 = if oplog.len() > 4096 {
        unframe(&oplog[4096..oplog.len().min(8192)])
            .and_then(|(bit, _, p, _)| decode_header(p).ok().map(|h| (bit, h)))
    } else {
        None
    };
    let bits: [bool; 2] = match (&h1, &h2) {
        (None, None) => return Err("no valid header".into()),
        (Some((b1, _)), None) => [*b1, *b1],
        (None, Some((b2, _))) => [!*b2, *b2],
        (Some((b1, _)), Some((b2, _))) => [*b1, *b2],
    };
    let cur = bits[0] != bits[1];
    let mut st = JsState::default();
    st.header_bit = cur;
    st.header = if cur { h2.unwrap().1 } else { h1.unwrap().1 };
    st.header_slot = cur as u8;
    // entries
    let mut pos = 8192usize;
    let mut decoded: Vec<JsEntry> = vec![];
    while pos < oplog.len() {
        let Some((bit, partial, payload, total)) = unframe(&oplog[pos..]) else { break };
        if bit != cur {
            st.stale_entries_skipped = true;
            break;
        }
        let mut e = match decode_entry(payload) {
            Ok(e) => e,
            Err(_) => break,
        };
        e.partial = partial;
        e.byte_length = total;
        decoded.push(e);
        pos += total;
    }
    while decoded.last().map(|e| e.partial).unwrap_or(false) {
        decoded.pop();
        st.partial_dropped += 1;
    }
    st.entries_bytes = decoded.iter().map(|e| e.byte_length).sum();
    // replay
    st.length = st.header.length;
    st.fork = st.header.fork;
    st.signature = st.header.signature.clone();
    let bf = &files[BITFIELD];
    for (i, byte) in bf.iter().enumerate() {
        if *byte != 0 {
            for k in 0..8 {
                if byte >> k & 1 == 1 {
                    st.bits.insert(i as u64 * 8 + k);
                }
            }
        }
    }
    for e in &decoded {
        for (i, s, h) in &e.tree_nodes {
            st.nodes.insert(*i, (*s, *h));
        }
        if let Some((drop, start, len)) = e.bitfield {
            for i in start..start.saturating_add(len).min(start + (1 << 22)) {
                if drop {
                    st.bits.remove(&i);
                } else {
                    st.bits.insert(i);
                }
            }
        }
        if let Some((fork, _anc, len, sig)) = &e.upgrade {
            st.fork = *fork;
            st.length = *len;
            st.signature = sig.clone();
        }
    }
    st.entries = decoded;
    // byte length from the roots' sizes
    let tree = &files[TREE];
    let node = |st: &JsState, i: u64| -> Option<(u64, H32)> {
        st.nodes.get(&i).copied().or_else(|| file_node(tree, i))
    };
    let mut bl = 0u64;
    for r in ft::full_roots(st.length) {
        match node(&st, r) {
            Some((s, _)) => bl += s,
            None => return Err(format!("root node {r} for length {} missing in tree store/entries", st.length)),
        }
    }
    st.byte_length = bl;
    // blocks
    let data = &files[DATA];
    let bits: Vec<u64> = st.bits.iter().copied().collect();
    for i in bits {
        if i >= st.length {
            continue; // judged separately
        }
        let (size, _) = node(&st, 2 * i).ok_or(format!("leaf node of held block {i} missing"))?;
        // offset: sizes of roots to the left + left siblings on the path
        let mut off = 0u64;
        let mut found = false;
        for r in ft::full_roots(st.length) {
            if ft::right_span(r) < 2 * i {
                off += node(&st, r).ok_or(format!("root {r} missing"))?.0;
                continue;
            }
            // descend
            let mut cur = r;
            while cur != 2 * i {
                let l = ft::left_child(cur).unwrap();
                let rr = ft::right_child(cur).unwrap();
                if 2 * i <= ft::right_span(l) {
                    cur = l;
                } else {
                    off += node(&st, l).ok_or(format!("node {l} needed for the offset of block {i} missing"))?.0;
                    cur = rr;
                }
            }
            found = true;
            break;
        }
        if !found {
            return Err(format!("block {i} not under any root"));
        }
        let v = if size == 0 {
            vec![]
        } else {
            if (off + size) as usize > data.len() {
                return Err(format!("block {i} at {off}+{size} beyond data file ({})", data.len()));
            }
            data[off as usize..(off + size) as usize].to_vec()
        };
        st.held.insert(i, v);
    }
    Ok(st)
}

/// C06 reader direction: the four files must reconstruct exactly what the API reports.
pub fn judge_layout(w: &mut World, n: usize) {
    if w.nodes[n].core.is_none() {
        return;
    }
    let files = w.files(n);
    let info = w.nodes[n].core.as_ref().unwrap().info();
    let pk = w.nodes[n].core.as_ref().unwrap().key_pair().public.to_bytes();
    let writable = w.nodes[n].core.as_ref().unwrap().key_pair().secret.is_some();
    let st = match read_store(&files) {
        Ok(s) => s,
        Err(e) => {
            w.viol("C06.read", format!("node {n}: independent JS-layout reader cannot open the storage: {e}"));
            return;
        }
    };
    if !st.entries.is_empty() {
        w.stats.probe("layout_with_unflushed_entries");
        for e in &st.entries {
            let fl = (if e.tree_nodes.is_empty() { 0 } else { 2 })
                | (if e.upgrade.is_some() { 4 } else { 0 })
                | (if e.bitfield.is_some() { 8 } else { 0 });
            w.stats.probe(&format!("entry_flags_{fl}"));
        }
    }
    w.stats.probe(if st.header_slot == 0 { "header_in_slot_0" } else { "header_in_slot_1" });
    let mut bad = |w: &mut World, m: String| w.viol("C06.read", format!("node {n}: {m}"));
    if st.length != info.length || st.byte_length != info.byte_length || st.fork != info.fork {
        bad(w, format!(
            "layout says length {} byte_length {} fork {}, API says {} {} {}",
            st.length, st.byte_length, st.fork, info.length, info.byte_length, info.fork
        ));
    }
    if st.header.public_key != pk || st.header.key != pk {
        bad(w, "stored public key differs from the API's".into());
    }
    if st.header.secret_key.is_some() != writable {
        bad(w, format!("stored secret key present = {}, API writeable = {}", st.header.secret_key.is_some(), writable));
    }
    if let Some(sk) = &st.header.secret_key {
        if sk.len() != 64 || sk[32..] != pk {
            bad(w, "stored secret key is not the 64-byte seed||public form".into());
        }
    }
    // has/get through the API vs the layout
    let upto = info.length + 2;
    let mut bad_n = 0;
    for i in 0..upto {
        let has = w.nodes[n].core.as_ref().unwrap().has(i);
        let lay = st.held.contains_key(&i);
        if has != lay && bad_n < 3 {
            bad_n += 1;
            bad(w, format!("block {i}: API has() = {has}, layout bit = {lay}"));
        }
    }
    if st.bits.iter().any(|b| *b >= st.length) {
        let b = st.bits.iter().find(|b| **b >= st.length).unwrap();
        bad(w, format!("bitfield has bit {b} set at or beyond length {}", st.length));
    }
    // block bytes: compare with the model (which C01/C03 tie to the API)
    let model = w.nodes[n].model.clone();
    for (i, v) in &st.held {
        if let Some(m) = model.get(*i) {
            if m != v && bad_n < 6 {
                bad_n += 1;
                bad(w, format!("block {i}: layout bytes differ from the appended bytes"));
            }
        }
    }
}

// ------------------------------------------------------------------------------- golden

const GOLDEN_PK: [u8; 32] = [
    0x97, 0x60, 0x6c, 0xaa, 0xd2, 0xb0, 0x8c, 0x1d, 0x5f, 0xe1, 0x64, 0x2e, 0xee, 0xa5, 0x62, 0xcb,
    0x91, 0xd6, 0x55, 0xe2, 0x00, 0xc8, 0xd4, 0x3a, 0x32, 0x09, 0x1d, 0x06, 0x4a, 0x33, 0x1e, 0xe3,
];
const GOLDEN_SK: [u8; 32] = [
    0x27, 0xe6, 0x74, 0x25, 0xc1, 0xff, 0xd1, 0xd9, 0xee, 0x62, 0x5c, 0x96, 0x2b, 0x57, 0x13, 0xc3,
    0x51, 0x0b, 0x71, 0x14, 0x15, 0xf3, 0x31, 0xf6, 0xfa, 0x9e, 0xf2, 0xbf, 0x23, 0x5f, 0x2f, 0xfe,
];
/// SHA-256 of (bitfield, data, oplog, tree) after each interop step, certified against the
/// JavaScript implementation (copied from tests/js_interop.rs at the pinned commit).
const GOLDEN: [[Option<&str>; 4]; 5] = [
    [None, None, Some("A30BD5326139E8650F3D53CB43291945AE92796ABAEBE1365AC1B0C37D008936"), None],
    [
        Some("0E2E1FF956A39192CBB68D2212288FE75B32733AB0C442B9F0471E254A0382A2"),
        Some("872E4E50CE9990D8B041330C47C9DDD11BEC6B503AE9386A99DA8584E9BB12C4"),
        Some("C65A6867991D29FCF98B4E4549C1039CB5B3C63D891BA1EA4F0BB47211BA4B05"),
        Some("8577B24ADC763F65D562CD11204F938229AD47F27915B0821C46A0470B80813A"),
    ],
    [
        Some("DEC1593A7456C8C9407B9B8B9C89682DFFF33C3892BCC9D9F06956FEE0A1B949"),
        Some("99EB5BC150A1102A7E50D15F90594660010B7FE719D54129065D1D417AA5015A"),
        Some("5DCE3C7C86B0E129B32E5A07CA3DF668006A42F9D75399D6E4DB3F18256B8468"),
        Some("38788609A8634DC8D34F9AE723F3169ADB20768ACFDFF266A43B7E217750DD1E"),
    ],
    [
        Some("9B844E9378A7D13D6CDD4C1FF12FB313013E5CC472C6CB46497033563FE6B8F1"),
        Some("AF3AC31CFBE1733C62496CF8E856D5F1EFB4B06CBF1E74204221C89E2F3E1CDE"),
        Some("46E01E9CECDF6E7EA85807F65C5F3CEED96583F3BF97BC6835A6DA05E39FE8E9"),
        Some("26339A21D606A1F731B90E8001030651D48378116B06A9C1EF87E2538194C2C6"),
    ],
    [
        Some("40C9CED82AE0B7A397C9FDD14EEB7F70B74E8F1229F3ED931852591972DDC3E0"),
        Some("D9FFCCEEE9109751F034ECDAE328672956B90A6E0B409C3173741B8A5D0E75AB"),
        Some("803384F10871FB60E53A7F833E6E1E9729C6D040D960164077963092BBEBA274"),
        Some("26339A21D606A1F731B90E8001030651D48378116B06A9C1EF87E2538194C2C6"),
    ],
];

fn sha_hex(b: &[u8]) -> Option<String> {
    use sha2::{Digest, Sha256};
    if b.is_empty() {
        return None;
    }
    let h = Sha256::digest(b);
    Some(h.iter().map(|x| format!("{x:02X}")).collect())
}

/// The five-step interop scenario, Rust-only, on SimDisk; file hashes must equal the certified ones.
pub fn run_golden() -> CaseOut {
    use crate::exec::{self, Guarded};
    use crate::world::{open_core, CacheMode};
    let mut out = CaseOut::default();
    out.nontrivial = true;
    let disk = crate::disk::Disk::new();
    let sk = SigningKey::from_bytes(&GOLDEN_SK);
    let mut viols: Vec<Viol> = vec![];
    if sk.verifying_key().to_bytes() != GOLDEN_PK {
        viols.push(Viol { clause: "C06.golden".into(), step: -1, msg: "golden key pair mismatch".into() });
    }
    let kp = hypercore::PartialKeypair { public: sk.verifying_key(), secret: Some(sk) };
    let d = disk.clone();
    let g = exec::run(async move {
        let mut hashes: Vec<Files> = vec![];
        // step 1: create
        {
            let _c = open_core(&d, Some(kp), CacheMode::Off).await?;
        }
        hashes.push(d.files());
        // step 2
        {
            let mut c = open_core(&d, None, CacheMode::Off).await?;
            let batch: &[&[u8]] = &[b"Hello", b"World"];
            c.append_batch(batch).await?;
        }
        hashes.push(d.files());
        // step 3
        {
            let mut c = open_core(&d, None, CacheMode::Off).await?;
            let _ = c.get(0).await?;
            let _ = c.get(1).await?;
            c.append(b"first").await?;
            let batch: &[&[u8]] = &[b"second", b"third"];
            c.append_batch(batch).await?;
            let multi = vec![0x61u8; 4096 * 3];
            c.append(&multi).await?;
            let empty: Vec<Vec<u8>> = vec![];
            c.append_batch(&empty).await?;
            for i in 2..6 {
                let _ = c.get(i).await?;
            }
        }
        hashes.push(d.files());
        // step 4
        {
            let mut c = open_core(&d, None, CacheMode::Off).await?;
            for i in 0..5u8 {
                c.append(&[i]).await?;
            }
        }
        hashes.push(d.files());
        // step 5
        {
            let mut c = open_core(&d, None, CacheMode::Off).await?;
            c.clear(5, 6).await?;
            c.clear(7, 9).await?;
            let _ = c.info();
            for i in [5u64, 7, 8, 4] {
                let _ = c.get(i).await?;
            }
        }
        hashes.push(d.files());
        Ok::<Vec<Files>, hypercore::HypercoreError>(hashes)
    });
    match g {
        Guarded::Done(Ok(snaps)) => {
            for (step, files) in snaps.iter().enumerate() {
                let got = [
                    sha_hex(&files[BITFIELD]),
                    sha_hex(&files[DATA]),
                    sha_hex(&files[OPLOG]),
                    sha_hex(&files[TREE]),
                ];
                for (k, name) in ["bitfield", "data", "oplog", "tree"].iter().enumerate() {
                    let exp = GOLDEN[step][k].map(|s| s.to_string());
                    if got[k] != exp {
                        viols.push(Viol {
                            clause: "C06.golden".into(),
                            step: step as i64 + 1,
                            msg: format!(
                                "interop step {}: SHA-256 of the {name} file is {:?}, certified value is {:?}",
                                step + 1,
                                got[k],
                                exp
                            ),
                        });
                    }
                }
                out.count("golden_hashes_compared", 4);
            }
        }
        Guarded::Done(Err(e)) => viols.push(Viol { clause: "C06.golden".into(), step: -1, msg: format!("interop scenario failed: {e}") }),
        Guarded::Panic(m) | Guarded::Hang(m) => {
            viols.push(Viol { clause: "C06.golden".into(), step: -1, msg: format!("interop scenario panicked: {m}") })
        }
    }
    out.viols = viols;
    out
}

// ------------------------------------------------------------------------------- writer

#[derive(Clone, Debug, Serialize, Deserialize, PartialEq)]
pub enum JsOp {
    Append(Vec<Blk>),
    Clear(u64, u64),
    /// JS core.truncate(n): length shrinks to n, fork + 1 (entry flags 4|8, no tree nodes)
    Truncate(u64),
}

#[derive(Clone, Debug, Serialize, Deserialize, PartialEq, Default)]
pub struct JsStoreSpec {
    pub key_seed: u64,
    /// operations already folded into header / tree / bitfield files
    pub flushed: Vec<JsOp>,
    /// operations present only as oplog entries (one entry each)
    pub entries: Vec<JsOp>,
    /// number of header writes so far (decides slot and bit parity; >= 1)
    pub header_writes: u32,
    /// 0 = both slots valid (older one in the other slot), 1 = other slot empty/absent,
    /// 2 = other slot holds garbage with a bad checksum
    pub other_slot: u8,
    /// an unfinished atomic batch after the complete entries: these ops are written as
    /// entries with the partial flag set and must be ignored by the opener
    pub trailing_partial: Vec<JsOp>,
    /// bytes of a cut (half-written) entry at the very end
    pub cut_tail: u32,
    /// stale entries (other header bit) left after the valid ones, as after a crash between
    /// header write and truncate
    pub stale_tail: Vec<JsOp>,
    /// mark the complete entries as one atomic batch (partial flag on all but the last)
    pub atomic: bool,
    pub read_only: bool,
}

struct Builder {
    key: SigningKey,
    blocks: Vec<Vec<u8>>,
    tree: RefTree,
    model: Model,
    fork: u64,
}

impl Builder {
    /// apply an op to the model and return the entry JS would log for it
    fn apply(&mut self, op: &JsOp) -> JsEntry {
        match op {
            JsOp::Append(blks) => {
                let start = self.blocks.len() as u64;
                let before_nodes: Vec<bool> = self.tree.nodes.iter().map(|n| n.is_some()).collect();
                let data: Vec<Vec<u8>> = blks.iter().map(payload).collect();
                for b in &data {
                    self.tree.push(b);
                    self.blocks.push(b.clone());
                }
                self.model.append(&data);
                let len = self.blocks.len() as u64;
                let mut nodes = vec![];
                for (i, n) in self.tree.nodes.iter().enumerate() {
                    if let Some((h, s)) = n {
                        if !before_nodes.get(i).copied().unwrap_or(false) {
                            nodes.push((i as u64, *s, *h));
                        }
                    }
                }
                let sig = self.key.sign(&self.tree.signable(len, self.fork)).to_bytes().to_vec();
                JsEntry {
                    tree_nodes: nodes,
                    upgrade: Some((self.fork, start, len, sig)),
                    bitfield: Some((false, start, len - start)),
                    ..Default::default()
                }
            }
            JsOp::Clear(s, e) => {
                self.model.clear(*s, *e);
                JsEntry { bitfield: Some((true, *s, e - s)), ..Default::default() }
            }
            JsOp::Truncate(n) => {
                let old = self.blocks.len() as u64;
                let n = (*n).min(old);
                self.blocks.truncate(n as usize);
                self.tree = RefTree::from_blocks(&self.blocks);
                self.fork += 1;
                self.model.clear(n, old.max(n + 1));
                self.model.length = n;
                self.model.byte_length = self.blocks.iter().map(|b| b.len() as u64).sum();
                self.model.fork = self.fork;
                let sig = if n == 0 {
                    // JS signs the empty tree too
                    self.key.sign(&crate::merkle::signable(&crate::merkle::tree_hash(&[]), 0, self.fork)).to_bytes().to_vec()
                } else {
                    self.key.sign(&self.tree.signable(n, self.fork)).to_bytes().to_vec()
                };
                JsEntry {
                    upgrade: Some((self.fork, n, n, sig)),
                    bitfield: if old > n { Some((true, n, old - n)) } else { None },
                    ..Default::default()
                }
            }
        }
    }
}

/// Lays out storage the way the JavaScript implementation would; returns the files and the
/// state an opener must reconstruct.
pub fn write_store(spec: &JsStoreSpec) -> (Files, Model, SigningKey) {
    let key = crate::world::key_from_seed(spec.key_seed);
    let mut b = Builder { key: key.clone(), blocks: vec![], tree: RefTree::new(), model: Model::new(!spec.read_only), fork: 0 };
    for op in &spec.flushed {
        b.apply(op);
    }
    let mut files: Files = Default::default();
    // flushed state -> tree, bitfield
    let flushed_len = b.blocks.len() as u64;
    for (i, n) in b.tree.nodes.iter().enumerate() {
        if let Some((h, s)) = n {
            let off = i * 40;
            if files[TREE].len() < off + 40 {
                files[TREE].resize(off + 40, 0);
            }
            files[TREE][off..off + 8].copy_from_slice(&s.to_le_bytes());
            files[TREE][off + 8..off + 40].copy_from_slice(h);
        }
    }
    if flushed_len > 0 {
        let pages = (flushed_len as usize + 32767) / 32768;
        files[BITFIELD].resize(pages * 4096, 0);
        for (i, _) in b.model.held.iter() {
            files[BITFIELD][(*i / 8) as usize] |= 1 << (i % 8);
        }
    }
    let pk = key.verifying_key().to_bytes().to_vec();
    let mut sk64 = key.to_bytes().to_vec();
    sk64.extend_from_slice(&pk);
    let mk_header = |b: &Builder, len: u64| -> JsHeader {
        JsHeader {
            key: pk.clone(),
            manifest_pk: Some(pk.clone()),
            public_key: pk.clone(),
            secret_key: if spec.read_only { None } else { Some(sk64.clone()) },
            fork: b.fork,
            length: len,
            root_hash: if len == 0 { vec![] } else { b.tree.root_hash(len).to_vec() },
            signature: if len == 0 { vec![] } else { b.key.sign(&b.tree.signable(len, b.fork)).to_bytes().to_vec() },
            contiguous_length: b.model.contiguous(),
        }
    };
    // header bits: start [1,0]; write k goes to slot (k odd -> first, even -> second) flipping
    // that slot's bit: [1,0] -> [0,0] -> [0,1] -> [1,1] -> [1,0] ...
    let mut bits = [true, false];
    let mut last_slot = 0usize;
    let writes = spec.header_writes.max(1);
    for _ in 0..writes {
        let slot = if bits[0] != bits[1] { 0 } else { 1 };
        bits[slot] = !bits[slot];
        last_slot = slot;
    }
    let cur_bit = bits[0] != bits[1];
    let header_now = mk_header(&b, flushed_len);
    let mut oplog = vec![0u8; 8192];
    let put = |oplog: &mut Vec<u8>, slot: usize, bytes: &[u8]| {
        let n = bytes.len().min(4096);
        oplog[slot * 4096..slot * 4096 + n].copy_from_slice(&bytes[..n]);
    };
    put(&mut oplog, last_slot, &frame(&encode_header(&header_now), bits[last_slot], false));
    let other = 1 - last_slot;
    match spec.other_slot {
        0 if writes >= 2 => {
            // an older header (empty core header is a valid older state)
            let older = JsHeader { length: 0, root_hash: vec![], signature: vec![], contiguous_length: 0, ..header_now.clone() };
            put(&mut oplog, other, &frame(&encode_header(&older), bits[other], false));
        }
        2 => {
            let mut junk = frame(&encode_header(&header_now), bits[other], false);
            let l = junk.len();
            junk[l - 3] ^= 0x55;
            put(&mut oplog, other, &junk);
        }
        _ => {
            // absent: when the current header lives in the second slot the first must exist in JS
            // (first write always goes to the first slot), so keep this combination realistic
            if last_slot == 1 {
                let older = JsHeader { length: 0, root_hash: vec![], signature: vec![], contiguous_length: 0, ..header_now.clone() };
                put(&mut oplog, other, &frame(&encode_header(&older), bits[other], false));
            }
        }
    }
    // complete entries
    let n_entries = spec.entries.len();
    for (i, op) in spec.entries.iter().enumerate() {
        let e = b.apply(op);
        let partial = spec.atomic && i + 1 < n_entries;
        oplog.extend_from_slice(&frame(&encode_entry(&e), cur_bit, partial));
    }
    let expected = b.model.clone();
    // what follows must be ignored by an opener
    let mut ghost = Builder { key: key.clone(), blocks: b.blocks.clone(), tree: b.tree.clone(), model: b.model.clone(), fork: b.fork };
    for op in &spec.trailing_partial {
        let e = ghost.apply(op);
        oplog.extend_from_slice(&frame(&encode_entry(&e), cur_bit, true));
    }
    for op in &spec.stale_tail {
        let e = ghost.apply(op);
        oplog.extend_from_slice(&frame(&encode_entry(&e), !cur_bit, false));
    }
    if spec.cut_tail > 0 {
        let e = ghost.apply(&JsOp::Append(vec![Blk { tag: 0x00ff_ff00, len: 5 }]));
        let f = frame(&encode_entry(&e), cur_bit, false);
        let n = (spec.cut_tail as usize).min(f.len() - 1);
        oplog.extend_from_slice(&f[..n]);
    }
    files[OPLOG] = oplog;
    // data: JS writes block data before the log entry, so every block (ghost ones too) is there
    // (after a truncate the data file keeps the old bytes beyond the new byte length)
    for blk in &ghost.blocks {
        files[DATA].extend_from_slice(blk);
    }
    files[DATA].extend_from_slice(&[0xEE; 64]);
    (files, expected, key)
}

pub fn gen_js_store(r: &mut crate::rng::Rng, idx: u64) -> JsStoreSpec {
    let mut g = crate::gen::G::new(idx);
    let mut len = 0u64;
    let mut ops = |r: &mut crate::rng::Rng, g: &mut crate::gen::G, n: u64, len: &mut u64| -> Vec<JsOp> {
        let mut v = vec![];
        for _ in 0..n {
            if *len > 0 && r.chance(1, 4) {
                let s = r.below(*len);
                let e = (s + 1 + r.below(3)).min(*len);
                v.push(JsOp::Clear(s, e));
            } else {
                let k = r.range(1, 4);
                let blks: Vec<Blk> = (0..k).map(|_| g.blk(r)).collect();
                *len += k;
                v.push(JsOp::Append(blks));
            }
        }
        v
    };
    let nf = r.below(5);
    let flushed = ops(r, &mut g, nf, &mut len);
    let ne = r.below(5);
    let mut entries = ops(r, &mut g, ne, &mut len);
    if len > 1 && r.chance(1, 6) {
        // An unflushed JS truncate (fork + 1). JS flushes right after logging a truncate (its
        // tree cannot take appends on top of an unflushed truncation), so the entry can only be
        // the LAST one: JS died between logging it and the flush.
        let n = r.below(len);
        entries.push(JsOp::Truncate(n));
        len = n;
    }
    let mut spec = JsStoreSpec {
        key_seed: idx ^ 0x5eed,
        flushed,
        entries,
        header_writes: r.range(1, 6) as u32,
        other_slot: r.below(3) as u8,
        atomic: r.chance(1, 4),
        read_only: r.chance(1, 8),
        ..Default::default()
    };
    match r.below(6) {
        0 => {
            let n = r.range(1, 3);
            spec.trailing_partial = ops(r, &mut g, n, &mut len);
        }
        1 => spec.cut_tail = r.range(1, 120) as u32,
        2 => {
            let n = r.range(1, 2);
            spec.stale_tail = ops(r, &mut g, n, &mut len);
        }
        3 => {
            let n = r.range(1, 2);
            spec.trailing_partial = ops(r, &mut g, n, &mut len);
            spec.cut_tail = r.range(1, 60) as u32;
        }
        _ => {}
    }
    spec
}

/// C06 writer direction: the crate must open reference-encoded storage to the same state.
pub fn run_js_store(spec: &JsStoreSpec) -> CaseOut {
    use crate::exec;
    use crate::world::{open_core, CacheMode, Res};
    let mut out = CaseOut::default();
    out.nontrivial = !spec.entries.is_empty() || !spec.flushed.is_empty();
    let (files, expected, key) = write_store(spec);
    // self-consistency of the reference: its own reader must reconstruct the expected state
    match read_store(&files) {
        Ok(st) => {
            let same = st.length == expected.length
                && st.byte_length == expected.byte_length
                && st.fork == expected.fork
                && st.held == expected.held;
            if !same {
                out.aborted = Some("reference writer/reader disagree (harness bug)".into());
                eprintln!("harness error: jsfmt writer/reader disagree for {spec:?}");
                std::process::exit(2);
            }
        }
        Err(e) => {
            eprintln!("harness error: jsfmt reader cannot read jsfmt writer output: {e} for {spec:?}");
            std::process::exit(2);
        }
    }
    if !spec.trailing_partial.is_empty() {
        out.count("foreign_writer_died_mid_batch", 1);
    }
    if spec.cut_tail > 0 {
        out.count("foreign_cut_last_entry", 1);
    }
    if spec.entries.iter().any(|e| matches!(e, JsOp::Truncate(_))) {
        out.count("foreign_unflushed_truncate_entry", 1);
    }
    if !spec.stale_tail.is_empty() {
        out.count("foreign_stale_entries", 1);
    }
    let disk = crate::disk::Disk::from_files(files);
    let g = exec::run(async { open_core(&disk, None, CacheMode::Off).await });
    let mut viols = vec![];
    match Res::from(g) {
        Res::Ok(core) => {
            let mut core = Some(core);
            let o = crate::crash::observe(&mut core, expected.length + 2, &key.verifying_key());
            if let Some(d) = &o.died {
                viols.push(Viol { clause: "C06.write".into(), step: -1, msg: format!("core opened on JS-laid-out storage is unusable: {d}") });
            } else if let Some(d) = crate::crash::diff(&o, &expected) {
                viols.push(Viol { clause: "C06.write".into(), step: -1, msg: format!("core opened on JS-laid-out storage differs from the state JS would see: {d}") });
            }
            if !o.pk_ok {
                viols.push(Viol { clause: "C06.write".into(), step: -1, msg: "public key not recovered".into() });
            }
        }
        other => {
            viols.push(Viol {
                clause: "C06.write".into(),
                step: -1,
                msg: format!("JS-laid-out storage cannot be opened: {}", crate::world::brief_unit(&other)),
            });
        }
    }
    out.viols = viols;
    out
}

#[allow(dead_code)]
fn _verify_unused(pk: &ed25519_dalek::VerifyingKey, m: &[u8], s: &ed25519_dalek::Signature) -> bool {
    pk.verify(m, s).is_ok()
}
