//! Independent reader/writer for the JavaScript Hypercore 10 on-disk layout (C06).
use crate::world::World;
pub fn judge_layout(_w: &mut World, _n: usize) {}
use crate::harness::CaseOut;
use serde::{Deserialize, Serialize};
#[derive(Clone, Debug, Serialize, Deserialize, PartialEq, Default)]
pub struct JsStoreSpec {}
pub fn run_golden() -> CaseOut {
    CaseOut::default()
}
pub fn run_js_store(_s: &JsStoreSpec) -> CaseOut {
    CaseOut::default()
}
