//! W4 configuration world (C14).
use crate::harness::CaseOut;
use serde::{Deserialize, Serialize};
#[derive(Clone, Debug, Serialize, Deserialize, PartialEq, Default)]
pub struct ConfigSpec {}
pub fn run_config(_s: &ConfigSpec) -> CaseOut {
    CaseOut::default()
}
