//! W4 configuration world (C14): one trace executed under several storage backends and node-cache
//! settings; observations (the per-step result log) and final file bytes must be identical.

use crate::disk::Backend;
use crate::harness::CaseOut;
use crate::world::{CacheMode, Cfg, ScanMode, Step, Viol, World};
use serde::{Deserialize, Serialize};

#[derive(Clone, Debug, Serialize, Deserialize, PartialEq)]
pub struct Arm {
    pub backend: Backend,
    pub cache: CacheMode,
    /// run in the second binary built without the `sparse` feature
    #[serde(default)]
    pub nosparse: bool,
}

#[derive(Clone, Debug, Serialize, Deserialize, PartialEq, Default)]
pub struct ConfigSpec {
    pub key_seed: u64,
    pub replicas: u8,
    pub steps: Vec<Step>,
    pub arms: Vec<Arm>,
}

#[derive(Clone, Debug, Serialize, Deserialize, PartialEq)]
pub struct ArmResult {
    pub log: Vec<String>,
    pub files: Vec<Vec<Vec<u8>>>,
    pub aborted: Option<String>,
    /// per step, per (node, store): (digest of the bytes, digest up to trailing zeros)
    #[serde(default)]
    pub step_digests: Vec<Vec<(u64, u64)>>,
}

pub fn run_arm(spec: &ConfigSpec, arm: &Arm) -> ArmResult {
    let mut cfg = Cfg::basic(spec.key_seed);
    cfg.replicas = spec.replicas;
    cfg.cache = arm.cache;
    cfg.backend = arm.backend;
    cfg.scan = ScanMode::Full;
    cfg.subscribers = 1;
    let mut w = World::new(cfg);
    w.keep_trace_log = true;
    w.create_all();
    // every prefix of the history is a history: file bytes are compared after every step
    let mut step_digests: Vec<Vec<(u64, u64)>> = vec![];
    for (i, st) in spec.steps.iter().enumerate() {
        if w.aborted.is_some() {
            break;
        }
        w.cur_step = i as i64;
        w.exec_step(st);
        let mut row = vec![];
        for n in 0..w.nodes.len() {
            for f in w.files(n).iter() {
                let mut exact = crate::rng::Digest::default();
                exact.bytes(f);
                let mut k = f.len();
                while k > 0 && f[k - 1] == 0 {
                    k -= 1;
                }
                let mut stripped = crate::rng::Digest::default();
                stripped.bytes(&f[..k]);
                row.push((exact.0, stripped.0));
            }
        }
        step_digests.push(row);
    }
    let files: Vec<Vec<Vec<u8>>> = (0..w.nodes.len()).map(|n| w.files(n).to_vec()).collect();
    ArmResult { log: std::mem::take(&mut w.trace_log), files, aborted: w.aborted.clone(), step_digests }
}

fn nosparse_binary() -> Option<std::path::PathBuf> {
    // <sim>/target/release/hcsim -> <sim>/target-nosparse/release/hcsim
    let exe = std::env::current_exe().ok()?;
    let sim = exe.parent()?.parent()?.parent()?;
    let p = sim.join("target-nosparse/release/hcsim");
    if p.exists() {
        Some(p)
    } else {
        None
    }
}

fn run_arm_external(spec: &ConfigSpec, arm: &Arm) -> Option<ArmResult> {
    let bin = nosparse_binary()?;
    static CTR: std::sync::atomic::AtomicU64 = std::sync::atomic::AtomicU64::new(0);
    let c = CTR.fetch_add(1, std::sync::atomic::Ordering::SeqCst);
    let f = std::path::PathBuf::from(format!("/dev/shm/hcsim-arm-{}-{}.json", std::process::id(), c));
    let mut one = spec.clone();
    one.arms = vec![Arm { nosparse: false, ..arm.clone() }];
    std::fs::write(&f, serde_json::to_string(&one).unwrap()).ok()?;
    let out = std::process::Command::new(bin).arg("c14-arm").arg(&f).output().ok();
    let _ = std::fs::remove_file(&f);
    let out = out?;
    if !out.status.success() {
        return None;
    }
    serde_json::from_slice(&out.stdout).ok()
}

pub fn run_config(spec: &ConfigSpec) -> CaseOut {
    let mut out = CaseOut::default();
    out.nontrivial = spec.steps.iter().any(|s| s.is_mutating())
        && spec.steps.iter().any(|s| matches!(s, Step::Reopen { .. }));
    if spec.arms.is_empty() {
        return out;
    }
    let reference = run_arm(spec, &spec.arms[0]);
    out.count("arms_executed", 1);
    out.sim_steps = reference.log.len() as u64;
    let mut d = crate::rng::Digest::default();
    for l in &reference.log {
        d.str(l);
    }
    out.log_hash = d.0;
    if let Some(a) = &reference.aborted {
        // the reference arm itself failed: C01/C03's clause, not a configuration difference
        out.aborted = Some(format!("reference arm failed: {a}"));
    }
    let mut viols: Vec<Viol> = vec![];
    for arm in &spec.arms[1..] {
        let r = if arm.nosparse {
            match run_arm_external(spec, arm) {
                Some(r) => {
                    out.count("arm_disk_without_sparse", 1);
                    r
                }
                None => {
                    out.count("nosparse_arm_unavailable", 1);
                    continue;
                }
            }
        } else {
            run_arm(spec, arm)
        };
        out.count("arms_executed", 1);
        out.count(&format!("arm_{:?}_{:?}", arm.backend, arm.cache), 1);
        // observations
        let n = reference.log.len().min(r.log.len());
        let mut first = None;
        for i in 0..n {
            if reference.log[i] != r.log[i] {
                first = Some(i);
                break;
            }
        }
        if first.is_none() && reference.log.len() != r.log.len() {
            first = Some(n);
        }
        if let Some(i) = first {
            viols.push(Viol {
                clause: "C14.observations".into(),
                step: i as i64,
                msg: format!(
                    "arm {:?} differs from reference {:?} at observation {i}: reference `{}` vs `{}`",
                    arm,
                    spec.arms[0],
                    reference.log.get(i).cloned().unwrap_or_else(|| "<end>".into()),
                    r.log.get(i).cloned().unwrap_or_else(|| "<end>".into())
                ),
            });
            continue;
        }
        // bytes after every step
        let disk_inv = arm.backend == Backend::DiskFs || spec.arms[0].backend == Backend::DiskFs;
        let mut step_diff = None;
        for (i, (ra, rb)) in reference.step_digests.iter().zip(r.step_digests.iter()).enumerate() {
            for (k, (a, b)) in ra.iter().zip(rb.iter()).enumerate() {
                let eq = if disk_inv { a.1 == b.1 } else { a.0 == b.0 };
                if !eq {
                    step_diff = Some((i, k));
                    break;
                }
            }
            if step_diff.is_some() {
                break;
            }
        }
        if let Some((i, k)) = step_diff {
            viols.push(Viol {
                clause: "C14.bytes".into(),
                step: i as i64,
                msg: format!(
                    "arm {:?}: after step {i} the {} file of node {} differs from reference {:?}",
                    arm,
                    crate::disk::STORE_NAMES[k % 4],
                    k / 4,
                    spec.arms[0]
                ),
            });
            continue;
        }
        // final bytes (lengths and contents must agree, holes read as zeros)
        for (nidx, (fa, fb)) in reference.files.iter().zip(r.files.iter()).enumerate() {
            for s in 0..4 {
                // A zero-length write at or beyond the end of file (appending an empty block)
                // extends the in-memory backends' length but not a real file: compare up to
                // trailing zero bytes when a real-disk arm is involved ("up to zero-filled holes").
                let disk_involved = arm.backend == Backend::DiskFs || spec.arms[0].backend == Backend::DiskFs;
                let strip = |v: &Vec<u8>| -> usize {
                    let mut n = v.len();
                    while n > 0 && v[n - 1] == 0 {
                        n -= 1;
                    }
                    n
                };
                let equal = if disk_involved {
                    let (na, nb) = (strip(&fa[s]), strip(&fb[s]));
                    fa[s][..na] == fb[s][..nb]
                } else {
                    fa[s] == fb[s]
                };
                if !equal {
                    let pos = fa[s].iter().zip(fb[s].iter()).position(|(a, b)| a != b);
                    viols.push(Viol {
                        clause: "C14.bytes".into(),
                        step: -1,
                        msg: format!(
                            "arm {:?}: node {nidx} {} file differs from reference {:?} (lengths {} vs {}, first differing byte {:?})",
                            arm,
                            crate::disk::STORE_NAMES[s],
                            spec.arms[0],
                            fa[s].len(),
                            fb[s].len(),
                            pos
                        ),
                    });
                    break;
                }
            }
        }
    }
    out.viols = viols;
    out
}

/// entry point of the second (no-sparse) binary: run one arm, print its result as JSON
pub fn arm_main(path: &str) -> i32 {
    let s = match std::fs::read_to_string(path) {
        Ok(s) => s,
        Err(_) => return 2,
    };
    let spec: ConfigSpec = match serde_json::from_str(&s) {
        Ok(s) => s,
        Err(_) => return 2,
    };
    let r = run_arm(&spec, &spec.arms[0]);
    println!("{}", serde_json::to_string(&r).unwrap());
    0
}
