//! Reference models (oracles), independent of crate code.
//! `Model` is the append-only list model: for a writer `held` = all non-cleared blocks; for a
//! replica `held` = blocks received and `length/byte_length` = what the writer had signed when the
//! replica last upgraded.

use serde::{Deserialize, Serialize};
use std::collections::BTreeMap;

/// Compact, attributable block payload: content is a pure function of (tag, len).
#[derive(Clone, Copy, Debug, Serialize, Deserialize, PartialEq, Eq, Hash)]
pub struct Blk {
    pub tag: u32,
    pub len: u32,
}

pub fn payload(b: &Blk) -> Vec<u8> {
    let mut v = Vec::with_capacity(b.len as usize);
    let t = b.tag.to_le_bytes();
    let mut x: u64 = (b.tag as u64).wrapping_mul(0x9E3779B97F4A7C15) ^ 0x1234_5678_9abc_def1;
    for i in 0..b.len as usize {
        if i < 4 {
            // never all-zero in the first byte so that a zero-filled hole is distinguishable
            v.push(if i == 0 { t[0] | 0x80 } else { t[i] });
        } else {
            x ^= x << 13;
            x ^= x >> 7;
            x ^= x << 17;
            v.push((x & 0xff) as u8 | 1);
        }
    }
    v
}

#[derive(Clone, Debug, PartialEq, Eq, Default)]
pub struct Model {
    pub length: u64,
    pub byte_length: u64,
    pub held: BTreeMap<u64, Vec<u8>>,
    pub writable: bool,
    /// fork counter (only foreign JS storage with a truncate entry has a non-zero fork)
    pub fork: u64,
}

impl Model {
    pub fn new(writable: bool) -> Model {
        Model { length: 0, byte_length: 0, held: BTreeMap::new(), writable, fork: 0 }
    }
    pub fn append(&mut self, blocks: &[Vec<u8>]) {
        for b in blocks {
            self.held.insert(self.length, b.clone());
            self.length += 1;
            self.byte_length += b.len() as u64;
        }
    }
    pub fn clear(&mut self, start: u64, end: u64) {
        if start >= end {
            return;
        }
        let keys: Vec<u64> = self.held.range(start..end).map(|(k, _)| *k).collect();
        for k in keys {
            self.held.remove(&k);
        }
    }
    pub fn has(&self, i: u64) -> bool {
        self.held.contains_key(&i)
    }
    pub fn get(&self, i: u64) -> Option<&Vec<u8>> {
        self.held.get(&i)
    }
    /// smallest index whose block is not held (length if none missing)
    pub fn contiguous(&self) -> u64 {
        let mut c = 0u64;
        for (k, _) in self.held.iter() {
            if *k == c {
                c += 1;
            } else {
                break;
            }
        }
        c.min(self.length)
    }
    pub fn digest(&self) -> u64 {
        let mut d = crate::rng::Digest::default();
        d.u64(self.length);
        d.u64(self.byte_length);
        d.u64(self.writable as u64);
        d.u64(self.fork);
        for (k, v) in &self.held {
            d.u64(*k);
            d.bytes(v);
        }
        d.0
    }
}

/// The writer's full history: every block ever appended (never changes), used as the truth for
/// replicas and for the independent Merkle reference.
#[derive(Clone, Debug, Default)]
pub struct Truth {
    pub blocks: Vec<Vec<u8>>,
    /// prefix byte sums: offsets[i] = byte offset of block i; offsets[len] = byte_length
    pub offsets: Vec<u64>,
    /// (length, byte_length) states the writer has signed, in order
    pub signed: Vec<(u64, u64)>,
}

impl Truth {
    pub fn new() -> Truth {
        Truth { blocks: vec![], offsets: vec![0], signed: vec![] }
    }
    pub fn append(&mut self, blocks: &[Vec<u8>]) {
        for b in blocks {
            let last = *self.offsets.last().unwrap();
            self.offsets.push(last + b.len() as u64);
            self.blocks.push(b.clone());
        }
        if !blocks.is_empty() {
            self.signed.push((self.len(), self.byte_length()));
        }
    }
    pub fn len(&self) -> u64 {
        self.blocks.len() as u64
    }
    pub fn byte_length(&self) -> u64 {
        *self.offsets.last().unwrap()
    }
}
