//! Replication steps: honest sync (C03), tampered proofs (C04), raw peer input (C09).

use crate::exec::{self, Guarded};
use crate::merkle::ft;
use crate::tamper::{Mutation, RawProofSpec};
use crate::world::{call_core, mk_request, Ev, Req, Res, World};
use hypercore::Proof;
use std::panic::{catch_unwind, AssertUnwindSafe};

/// Concrete request derived from a symbolic `Req` and the current models.
#[derive(Clone, Debug, Default, PartialEq)]
pub struct Concrete {
    pub block: Option<u64>,
    pub hash: Option<u64>,
    pub seek: Option<u64>,
    pub upgrade: Option<(u64, u64)>,
    pub class: String,
    pub straddle: bool,
}

/// Normalise a symbolic request into a well-formed honest one (None = nothing to ask).
/// `nodes_for` is consulted for block+seek to bound the byte offset.
pub fn normalise(w: &World, n: usize, req: &Req) -> Option<Concrete> {
    let wlen = w.truth.len();
    if wlen == 0 {
        return None;
    }
    let rlen = w.nodes[n].model.length;
    let behind = wlen.saturating_sub(rlen);
    let mut c = Concrete::default();
    let mut last_index: Option<u64> = None; // last block index covered by the indexed part
    let mut first_index: Option<u64> = None;
    if let Some(b) = req.block {
        let i = b % wlen;
        c.block = Some(i);
        last_index = Some(i);
        first_index = Some(i);
    } else if let Some(h) = req.hash {
        // reduce into an existing node of the writer's tree
        let mut j = h % (2 * wlen - 1).max(1);
        while !ft::exists(j, wlen) {
            match ft::left_child(j) {
                Some(l) => j = l,
                None => {
                    j = 0;
                    break;
                }
            }
        }
        // straddling the replica's length?
        let mut strad = behind > 0 && ft::left_span(j) / 2 < rlen && ft::right_span(j) / 2 >= rlen;
        if strad && !req.straddle {
            while behind > 0 && ft::left_span(j) / 2 < rlen && ft::right_span(j) / 2 >= rlen {
                j = ft::left_child(j).unwrap();
            }
            strad = false;
        }
        c.straddle = strad;
        c.hash = Some(j);
        last_index = Some(ft::right_span(j) / 2);
        first_index = Some(ft::left_span(j) / 2);
    }
    // upgrade
    let need = last_index.map(|l| l >= rlen).unwrap_or(false);
    if behind > 0 {
        let mut len = match req.upgrade {
            Some(l) => Some(1 + l % behind),
            None => {
                if need {
                    Some(behind)
                } else {
                    None
                }
            }
        };
        if let (Some(l), Some(li)) = (len, last_index) {
            if need && rlen + l <= li {
                len = Some(li - rlen + 1);
            }
        }
        if let Some(l) = len {
            c.upgrade = Some((rlen, l));
        }
    }
    // seek: only in the combinations the API admits
    if let Some(sel) = req.seek {
        if c.block.is_none() && c.hash.is_none() {
            if let Some((s, l)) = c.upgrade {
                let to = s + l;
                let max = w.truth.offsets[to as usize];
                c.seek = Some(sel % (max + 1));
            }
        } else if let Some(i) = c.block {
            let ok = match c.upgrade {
                None => true,
                Some((s, _)) => i < s,
            };
            if ok && i < rlen {
                // resolved later (needs the replica's missing-node count): mark with selector
                c.seek = Some(sel);
            }
        }
    }
    if c.block.is_none() && c.hash.is_none() && c.upgrade.is_none() {
        return None;
    }
    // class label
    let pos = |first: u64, last: u64| -> &'static str {
        if last < rlen {
            "below"
        } else if first >= rlen {
            if first == rlen {
                "at"
            } else {
                "above"
            }
        } else {
            "straddle"
        }
    };
    let mut class = String::new();
    if let (Some(f), Some(l)) = (first_index, last_index) {
        class.push_str(if c.block.is_some() { "block-" } else { "hash-" });
        class.push_str(pos(f, l));
    }
    if c.seek.is_some() {
        class.push_str("+seek");
    }
    if let Some((s, l)) = c.upgrade {
        class.push_str(if s + l == wlen { "+upgrade-full" } else { "+upgrade-partial" });
    }
    c.class = class;
    Some(c)
}

pub struct SyncOutcome {
    pub proof: Option<Proof>,
    pub concrete: Concrete,
    pub nodes: u64,
}

/// Steps 1 and 2 of an honest exchange: missing-node query on the replica, proof creation on
/// the writer. Judges the C03 create clauses. Returns None when aborted or nothing to do.
pub fn request_and_create(w: &mut World, n: usize, req: &Req) -> Option<SyncOutcome> {
    if n == 0 || w.nodes[0].core.is_none() {
        w.stats.skipped += 1;
        return None;
    }
    let Some(mut c) = normalise(w, n, req) else {
        w.stats.skipped += 1;
        w.logf(|| format!("sync n{n} skipped (nothing to request)"));
        return None;
    };
    // 1. node count from the replica's own missing-node query
    let mut nodes = 0u64;
    if let Some(i) = c.block {
        let call = w.begin_call(n, "missing_nodes");
        let g = call_core!(w, n, |core| core.missing_nodes(i).await);
        let r = Res::from(g);
        w.logf(|| format!("missing_nodes n{n} block {i} -> {}", r.brief()));
        match r {
            Res::Ok(v) => {
                w.end_call(call, true);
                nodes = v
            }
            other => {
                w.end_call(call, false);
                if matches!(other, Res::Panic(_) | Res::Hang(_)) {
                    w.calls[call].crashed = true;
                }
                fail_honest(w, n, "C03.missing_nodes", "missing_nodes", &other);
                return None;
            }
        }
    } else if let Some(j) = c.hash {
        let call = w.begin_call(n, "missing_nodes");
        let g = call_core!(w, n, |core| core.missing_nodes_from_merkle_tree_index(j).await);
        let r = Res::from(g);
        w.logf(|| format!("missing_nodes n{n} tree index {j} -> {}", r.brief()));
        match r {
            Res::Ok(v) => {
                w.end_call(call, true);
                nodes = v
            }
            other => {
                w.end_call(call, false);
                if matches!(other, Res::Panic(_) | Res::Hang(_)) {
                    w.calls[call].crashed = true;
                }
                fail_honest(w, n, "C03.missing_nodes", "missing_nodes", &other);
                return None;
            }
        }
    }
    // resolve block+seek byte offset inside the proven subtree's byte span
    if let (Some(i), Some(sel)) = (c.block, c.seek) {
        let mut root = 2 * i;
        for _ in 0..nodes {
            root = ft::parent(root);
        }
        if ft::exists(root, w.truth.len()) {
            let (off, size) = w.reftree.byte_span(root, &w.truth.offsets);
            c.seek = Some(if size == 0 { off } else { off + sel % size });
        } else {
            c.seek = None;
        }
    }
    w.stats.class(&c.class);
    let (rb, rh, rs, ru) = mk_request(
        c.block.map(|i| (i, nodes)),
        c.hash.map(|j| (j, nodes)),
        c.seek,
        c.upgrade,
    );
    // 2. proof creation on the writer
    let call = w.begin_call(0, "create_proof");
    let g = call_core!(w, 0, |core| core.create_proof(rb, rh, rs, ru).await);
    let r = Res::from(g);
    w.end_call(call, matches!(r, Res::Ok(_)));
    let cc = c.clone();
    w.logf(|| {
        format!(
            "create_proof for n{n} {:?} nodes {nodes} -> {}",
            cc,
            match &r {
                Res::Ok(Some(p)) => format!("Ok({})", crate::world::proof_brief(p)),
                Res::Ok(None) => "Ok(None)".into(),
                other => other.brief(),
            }
        )
    });
    let _ = w.drain(0); // a Get event for a cleared block is tolerated, not required
    w.stats.proofs_honest += 1;
    let cleared = c.block.map(|i| !w.nodes[0].model.has(i)).unwrap_or(false);
    let clause = if c.straddle { "C03.straddle" } else { "C03.create" };
    match r {
        Res::Ok(Some(p)) => {
            if cleared {
                w.viol(
                    "C03.create",
                    format!("writer served a proof for block {:?} which it has cleared", c.block),
                );
                return None;
            }
            if w.cfg.judge_tree {
                crate::c05::judge_proof(w, &p);
            }
            Some(SyncOutcome { proof: Some(p), concrete: c, nodes })
        }
        Res::Ok(None) => {
            if cleared {
                w.stats.proofs_none += 1;
                Some(SyncOutcome { proof: None, concrete: c, nodes })
            } else {
                w.viol(clause, format!("honest request {c:?} (nodes {nodes}) yielded no proof"));
                None
            }
        }
        other => {
            if w.fault_fired(0) && matches!(other, Res::Err(..)) {
                // an injected storage fault on the writer surfaced as an error: C10 judges it
                w.aborted = Some("injected fault surfaced in create_proof".into());
                return None;
            }
            if matches!(other, Res::Panic(_) | Res::Hang(_)) {
                w.calls[call].crashed = true;
            }
            let b = other.brief();
            w.viol(clause, format!("honest request {c:?} (nodes {nodes}) not served: {b}"));
            if w.nodes[0].dead {
                w.aborted = Some("writer died in create_proof".into());
            }
            None
        }
    }
}

fn fail_honest<T: std::fmt::Debug>(w: &mut World, n: usize, clause: &str, what: &str, r: &Res<T>) {
    if w.fault_fired(n) && matches!(r, Res::Err(..)) {
        w.aborted = Some(format!("injected fault surfaced in {what}"));
        return;
    }
    let b = r.brief();
    w.viol(clause, format!("{what} on an honest exchange failed: {b}"));
    if w.nodes[n].dead {
        w.aborted = Some(format!("{what} died"));
    }
}

/// expected events for an accepted proof
pub fn proof_events(p: &Proof) -> Vec<Ev> {
    let mut v = vec![];
    if p.upgrade.is_some() {
        v.push(Ev::Upgrade);
    }
    if let Some(b) = &p.block {
        v.push(Ev::Have(b.index, 1, false));
    }
    v
}

/// Apply an honest proof on replica n and judge acceptance + model update.
pub fn apply_honest(w: &mut World, n: usize, p: &Proof, c: &Concrete) -> bool {
    let call = w.begin_call(n, "verify_and_apply_proof");
    let g = call_core!(w, n, |core| core.verify_and_apply_proof(p).await);
    let r = Res::from(g);
    w.logf(|| format!("apply n{n} -> {}", r.brief()));
    let clause = if c.straddle { "C03.straddle" } else { "C03.accept" };
    // model after acceptance
    let light = w.cfg.no_snapshots;
    let mut after = if light { crate::model::Model::default() } else { w.nodes[n].model.clone() };
    let advance = |m: &mut crate::model::Model, w: &World| {
        if p.upgrade.is_some() {
            m.length = w.truth.len();
            m.byte_length = w.truth.byte_length();
        }
        if let Some(b) = &p.block {
            m.held.insert(b.index, w.truth.blocks[b.index as usize].clone());
        }
    };
    if !light {
        advance(&mut after, w);
    }
    match r {
        Res::Ok(true) => {
            if light {
                let mut m = std::mem::take(&mut w.nodes[n].model);
                advance(&mut m, w);
                w.nodes[n].model = m;
            } else {
                w.nodes[n].model = after;
            }
            if let Some(b) = &p.block {
                w.nodes[n].became.insert(b.index);
            }
            w.end_call(call, true);
            w.stats.proofs_accepted += 1;
            let ev = proof_events(p);
            w.expect_events(n, "accepted proof", &ev);
            true
        }
        other => {
            w.end_call(call, false);
            w.calls[call].after = after;
            if matches!(other, Res::Panic(_) | Res::Hang(_)) {
                w.calls[call].crashed = true;
            }
            if w.fault_fired(n) && matches!(other, Res::Err(..)) {
                w.aborted = Some("injected fault surfaced in verify_and_apply_proof".into());
                w.expect_events(n, "failed verify_and_apply_proof", &[]);
                return false;
            }
            let b = other.brief();
            w.viol(clause, format!("honest proof for {c:?} not accepted: {b}"));
            if w.nodes[n].dead {
                w.aborted = Some("replica died in verify_and_apply_proof".into());
            } else {
                w.expect_events(n, "refused proof", &[]);
            }
            false
        }
    }
}

pub fn do_sync(w: &mut World, n: usize, req: &Req) {
    let Some(out) = request_and_create(w, n, req) else { return };
    if let Some(p) = out.proof {
        apply_honest(w, n, &p, &out.concrete);
    }
}

pub fn do_tamper(w: &mut World, n: usize, req: &Req, m: &Mutation) {
    crate::tamper::do_tamper(w, n, req, m);
}

/// C09: any request tuple to create_proof must return Ok/Err, never panic or hang.
pub fn do_raw_request(
    w: &mut World,
    n: usize,
    block: Option<(u64, u64)>,
    hash: Option<(u64, u64)>,
    seek: Option<u64>,
    upgrade: Option<(u64, u64)>,
) {
    w.stats.raw_calls += 1;
    let (rb, rh, rs, ru) = mk_request(block, hash, seek, upgrade);
    let call = w.begin_call(n, "create_proof(raw)");
    let g = call_core!(w, n, |core| core.create_proof(rb, rh, rs, ru).await);
    let r = Res::from(g);
    w.end_call(call, matches!(r, Res::Ok(_)));
    w.logf(|| {
        format!(
            "raw create_proof n{n} block {block:?} hash {hash:?} seek {seek:?} upgrade {upgrade:?} -> {}",
            match &r {
                Res::Ok(Some(p)) => format!("Ok({})", crate::world::proof_brief(p)),
                Res::Ok(None) => "Ok(None)".into(),
                other => other.brief(),
            }
        )
    });
    let _ = w.drain(n);
    match r {
        Res::Panic(m) => {
            w.viol("C09.panic", format!("create_proof(block {block:?}, hash {hash:?}, seek {seek:?}, upgrade {upgrade:?}) panicked: {m}"));
            w.aborted = Some("panic in create_proof".into());
        }
        Res::Hang(m) => {
            w.viol("C09.hang", format!("create_proof(block {block:?}, hash {hash:?}, seek {seek:?}, upgrade {upgrade:?}) hung: {m}"));
            w.aborted = Some("hang in create_proof".into());
        }
        _ => {}
    }
}

pub fn do_raw_proof(w: &mut World, n: usize, spec: &RawProofSpec) {
    w.stats.raw_calls += 1;
    let p = crate::tamper::build_raw(w, spec);
    offer_untrusted(w, n, &p, "raw proof", "C09");
}

/// Offer an untrusted proof: judge C09 (no panic/hang) and C04 (refused => unchanged,
/// accepted => still truthful). Returns Some(accepted).
pub fn offer_untrusted(w: &mut World, n: usize, p: &Proof, what: &str, prop: &str) -> Option<bool> {
    let before_files = w.files(n);
    let before_model = w.nodes[n].model.clone();
    let call = w.begin_call(n, "verify_and_apply_proof(untrusted)");
    let g = call_core!(w, n, |core| core.verify_and_apply_proof(p).await);
    let r = Res::from(g);
    w.logf(|| format!("offer {what} to n{n}: {} -> {}", crate::world::proof_brief(p), r.brief()));
    match r {
        Res::Panic(m) => {
            w.end_call(call, false);
            w.viol("C09.panic", format!("verify_and_apply_proof({what}) panicked: {m}"));
            w.aborted = Some("panic in verify_and_apply_proof".into());
            None
        }
        Res::Hang(m) => {
            w.end_call(call, false);
            w.viol("C09.hang", format!("verify_and_apply_proof({what}) hung: {m}"));
            w.aborted = Some("hang in verify_and_apply_proof".into());
            None
        }
        Res::Ok(true) => {
            // accepted: must still be the truth. The only state the writer signed that the
            // replica may move to is the writer's current one.
            let mut after = before_model.clone();
            if p.upgrade.is_some() {
                after.length = w.truth.len();
                after.byte_length = w.truth.byte_length();
            }
            if let Some(b) = &p.block {
                if (b.index as usize) < w.truth.blocks.len() {
                    after.held.insert(b.index, w.truth.blocks[b.index as usize].clone());
                }
            }
            w.nodes[n].model = after;
            w.nodes[n].events_lost = true;
            w.end_call(call, true);
            let _ = w.drain(n);
            let _ = prop;
            Some(true)
        }
        Res::Ok(false) | Res::Err(..) => {
            w.end_call(call, false);
            // refused: every observation unchanged (storage bytes too, which covers reopen)
            let after_files = w.files(n);
            if after_files != before_files {
                let which: Vec<&str> = (0..4)
                    .filter(|i| after_files[*i] != before_files[*i])
                    .map(|i| crate::disk::STORE_NAMES[i])
                    .collect();
                w.viol(
                    "C04.refused-changed",
                    format!("refused {what} changed storage files {which:?}"),
                );
            }
            let ev = w.drain(n);
            if ev.iter().any(|e| !e.is_empty()) {
                w.viol("C13.events", format!("refused {what} emitted events {ev:?}"));
            }
            Some(false)
        }
    }
}

#[allow(dead_code)]
fn unused() {
    let _ = catch_unwind(AssertUnwindSafe(|| ()));
    let _: Option<Guarded<()>> = None;
    let _ = exec::POLL_BUDGET;
}
