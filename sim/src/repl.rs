//! Replication steps (honest sync, tampered proofs, raw requests). Filled in with W2.
use crate::tamper::{Mutation, RawProofSpec};
use crate::world::{Req, World};

pub fn do_sync(_w: &mut World, _n: usize, _req: &Req) {}
pub fn do_tamper(_w: &mut World, _n: usize, _req: &Req, _m: &Mutation) {}
pub fn do_raw_request(
    _w: &mut World,
    _n: usize,
    _block: Option<(u64, u64)>,
    _hash: Option<(u64, u64)>,
    _seek: Option<u64>,
    _upgrade: Option<(u64, u64)>,
) {
}
pub fn do_raw_proof(_w: &mut World, _n: usize, _p: &RawProofSpec) {}
