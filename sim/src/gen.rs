//! Seeded trace generators (swarm style) and step simplification for the minimiser.

use crate::model::Blk;
use crate::rng::Rng;
use crate::world::{Req, Step};

/// light generator-side tracking so that indices are meaningful
#[derive(Clone, Debug, Default)]
pub struct G {
    pub len: u64,
    pub next_tag: u32,
    pub cleared: Vec<(u64, u64)>,
    /// replica lengths as the generator believes them (index = node)
    pub rlen: Vec<u64>,
}

impl G {
    pub fn new(run: u64) -> G {
        G { len: 0, next_tag: ((run as u32) << 12) & 0x3fff_ffff, cleared: vec![], rlen: vec![0; 8] }
    }
    pub fn blk(&mut self, r: &mut Rng) -> Blk {
        let tag = self.next_tag;
        self.next_tag = (self.next_tag + 1) & 0x3fff_ffff;
        let len = match r.below(40) {
            0..=4 => 0,
            5 | 6 => r.range(4096, 12288) as u32,
            7 => 1,
            _ => r.range(1, 40) as u32,
        };
        Blk { tag, len }
    }
    pub fn small_blk(&mut self, len: u32) -> Blk {
        let tag = self.next_tag;
        self.next_tag = (self.next_tag + 1) & 0x3fff_ffff;
        Blk { tag, len }
    }
    pub fn index(&self, r: &mut Rng) -> u64 {
        let l = self.len;
        match r.below(20) {
            0 => l,
            1 => l + 1,
            2 => *r.pick(&[8191u64, 8192, 32767, 32768, 65535, 65536]),
            3 => *r.pick(&[1u64 << 32, 1 << 40, u64::MAX, u64::MAX - 1]),
            _ => {
                if l == 0 {
                    0
                } else {
                    r.below(l)
                }
            }
        }
    }
    pub fn clear_range(&self, r: &mut Rng) -> (u64, u64) {
        let l = self.len.max(1);
        let s = r.below(l);
        let e = match r.below(10) {
            0 => l + r.range(1, 5),               // beyond the end
            1 => l,                               // exactly to the end
            2 => l + *r.pick(&[100u64, 32768, 70000]),
            3 | 4 => s + 1,
            _ => s + 1 + r.below((l - s).max(1)),
        };
        (s, e)
    }
}

#[derive(Clone, Copy, Debug)]
pub struct Mix {
    pub append: u64,
    pub batch: u64,
    pub clear: u64,
    pub read: u64,
    pub reopen: u64,
    pub mro: u64,
}

pub fn pick_mix(r: &mut Rng) -> (Mix, &'static str) {
    match r.below(7) {
        0 => (Mix { append: 6, batch: 3, clear: 2, read: 4, reopen: 3, mro: 0 }, "balanced"),
        1 => (Mix { append: 4, batch: 2, clear: 8, read: 3, reopen: 3, mro: 0 }, "clear-heavy"),
        2 => (Mix { append: 5, batch: 3, clear: 3, read: 1, reopen: 12, mro: 0 }, "reopen-heavy"),
        3 => (Mix { append: 2, batch: 10, clear: 2, read: 2, reopen: 3, mro: 0 }, "batch-heavy"),
        4 => (Mix { append: 10, batch: 0, clear: 0, read: 2, reopen: 4, mro: 0 }, "append-reopen"),
        5 => (Mix { append: 5, batch: 2, clear: 4, read: 6, reopen: 2, mro: 1 }, "with-read-only"),
        _ => (Mix { append: 3, batch: 3, clear: 6, read: 2, reopen: 6, mro: 0 }, "clear-reopen"),
    }
}

/// writer-only history of `n` steps on node 0
pub fn writer_history(r: &mut Rng, g: &mut G, n: usize, mix: Mix) -> Vec<Step> {
    let mut steps = vec![];
    let total = mix.append + mix.batch + mix.clear + mix.read + mix.reopen + mix.mro;
    for _ in 0..n {
        let mut x = r.below(total);
        if x < mix.append {
            let blk = g.blk(r);
            g.len += 1;
            steps.push(Step::Append { n: 0, blk });
            continue;
        }
        x -= mix.append;
        if x < mix.batch {
            let k = match r.below(8) {
                0 => 0,
                1 => 1,
                _ => r.range(2, 6),
            };
            let blks: Vec<Blk> = (0..k).map(|_| g.blk(r)).collect();
            g.len += k;
            steps.push(Step::Batch { n: 0, blks });
            continue;
        }
        x -= mix.batch;
        if x < mix.clear {
            if g.len == 0 {
                let blk = g.blk(r);
                g.len += 1;
                steps.push(Step::Append { n: 0, blk });
            } else {
                let (s, e) = g.clear_range(r);
                g.cleared.push((s, e));
                steps.push(Step::Clear { n: 0, start: s, end: e });
            }
            continue;
        }
        x -= mix.clear;
        if x < mix.read {
            let i = g.index(r);
            steps.push(match r.below(4) {
                0 => Step::Has { n: 0, index: i },
                1 => Step::Info { n: 0 },
                _ => Step::Get { n: 0, index: i },
            });
            continue;
        }
        x -= mix.read;
        if x < mix.reopen {
            steps.push(Step::Reopen { n: 0 });
            continue;
        }
        steps.push(Step::MakeReadOnly { n: 0 });
    }
    steps
}

/// the 9-letter alphabet of the systematic sweep; letters are concretised against the
/// generator-side length
pub fn sweep_trace(mut code: u64, len: usize, g: &mut G) -> Vec<Step> {
    let mut steps = vec![];
    for _ in 0..len {
        let letter = code % 9;
        code /= 9;
        match letter {
            0 => {
                steps.push(Step::Append { n: 0, blk: g.small_blk(0) });
                g.len += 1;
            }
            1 => {
                steps.push(Step::Append { n: 0, blk: g.small_blk(3) });
                g.len += 1;
            }
            2 => steps.push(Step::Batch { n: 0, blks: vec![] }),
            3 => {
                let blks = vec![g.small_blk(1), g.small_blk(0), g.small_blk(5)];
                g.len += 3;
                steps.push(Step::Batch { n: 0, blks });
            }
            4 => steps.push(Step::Clear { n: 0, start: 0, end: 1 }),
            5 => {
                let s = g.len.saturating_sub(1);
                steps.push(Step::Clear { n: 0, start: s, end: s + 1 });
            }
            6 => {
                let s = g.len.saturating_sub(2);
                steps.push(Step::Clear { n: 0, start: s, end: g.len + 3 });
            }
            7 => steps.push(Step::Reopen { n: 0 }),
            _ => {
                steps.push(Step::Info { n: 0 });
                steps.push(Step::Scan { n: 0 });
            }
        }
    }
    steps
}

/// number of sweep traces of length 1..=max_len
pub fn sweep_count(max_len: usize) -> u64 {
    (1..=max_len).map(|l| 9u64.pow(l as u32)).sum()
}

pub fn sweep_decode(mut idx: u64, max_len: usize) -> (u64, usize) {
    for l in 1..=max_len {
        let c = 9u64.pow(l as u32);
        if idx < c {
            return (idx, l);
        }
        idx -= c;
    }
    (0, 1)
}

/// large family: cross the 8192 / 32768 / 65536 index boundaries
pub fn large_history(r: &mut Rng, g: &mut G) -> Vec<Step> {
    let mut steps = vec![];
    let first = *r.pick(&[8190u32, 9000, 32766, 33000, 40000, 65530, 66000, 70000]);
    let size = *r.pick(&[1u32, 1, 1, 0, 2]);
    steps.push(Step::Fill { n: 0, count: first, size, tag0: g.next_tag });
    g.next_tag = (g.next_tag + first) & 0x3fff_ffff;
    g.len += first as u64;
    let extra = r.range(3, 9);
    for _ in 0..extra {
        match r.below(8) {
            0 | 1 => steps.push(Step::Reopen { n: 0 }),
            2 => {
                let c = *r.pick(&[1u32, 3, 40, 2000, 30000]);
                steps.push(Step::Fill { n: 0, count: c, size: 1, tag0: g.next_tag });
                g.next_tag = (g.next_tag + c) & 0x3fff_ffff;
                g.len += c as u64;
            }
            3 | 4 => {
                // clear straddling a page edge or a word edge
                let edges: Vec<u64> =
                    [8192u64, 32768, 65536, 1024, 32, 40960].iter().copied().filter(|e| *e < g.len).collect();
                let (s, e) = if edges.is_empty() || r.chance(1, 4) {
                    g.clear_range(r)
                } else {
                    let edge = *r.pick(&edges);
                    let s = edge - r.range(0, 3).min(edge);
                    (s, (edge + r.range(0, 4)).max(s + 1))
                };
                steps.push(Step::Clear { n: 0, start: s, end: e });
                steps.push(Step::Reopen { n: 0 });
            }
            5 => {
                let blk = g.blk(r);
                g.len += 1;
                steps.push(Step::Append { n: 0, blk });
            }
            6 => {
                // clear in the middle of the contiguous run, then reopen before the next flush
                let s = r.below(g.len.max(1));
                steps.push(Step::Clear { n: 0, start: s, end: s + r.range(1, 3) });
            }
            _ => steps.push(Step::Get { n: 0, index: g.index(r) }),
        }
    }
    steps.push(Step::Reopen { n: 0 });
    steps
}

/// simpler variants of one step for the minimiser (same kind or simpler kind)
pub fn simpler(s: &Step) -> Vec<Step> {
    let mut v = vec![];
    match s {
        Step::Batch { n, blks } => {
            if blks.len() > 1 {
                v.push(Step::Batch { n: *n, blks: blks[..1].to_vec() });
                v.push(Step::Batch { n: *n, blks: blks[..blks.len() - 1].to_vec() });
            }
            if blks.len() == 1 {
                v.push(Step::Append { n: *n, blk: blks[0] });
            }
            for (i, b) in blks.iter().enumerate() {
                if b.len > 3 {
                    let mut c = blks.clone();
                    c[i].len = 1;
                    v.push(Step::Batch { n: *n, blks: c });
                }
            }
        }
        Step::Append { n, blk } => {
            for l in [0u32, 1, 3] {
                if blk.len > l {
                    v.push(Step::Append { n: *n, blk: Blk { tag: blk.tag, len: l } });
                }
            }
        }
        Step::Fill { n, count, size, tag0 } => {
            for c in [1u32, 3, 33, 1025, 8193, 32769, count / 2] {
                if c < *count && c > 0 {
                    v.push(Step::Fill { n: *n, count: c, size: *size, tag0: *tag0 });
                }
            }
        }
        Step::Clear { n, start, end } => {
            if *end > start + 1 {
                v.push(Step::Clear { n: *n, start: *start, end: start + 1 });
                v.push(Step::Clear { n: *n, start: *start, end: (start + end) / 2 + 1 });
            }
        }
        Step::Sync { to, req } => {
            if req.seek.is_some() {
                v.push(Step::Sync { to: *to, req: Req { seek: None, ..req.clone() } });
            }
            if req.hash.is_some() && req.block.is_none() {
                v.push(Step::Sync {
                    to: *to,
                    req: Req { hash: None, block: Some(req.hash.unwrap() / 2), ..req.clone() },
                });
            }
        }
        _ => {}
    }
    v
}

/// random symbolic replication request
pub fn rand_req(r: &mut Rng) -> Req {
    let mut q = Req::default();
    match r.below(10) {
        0..=5 => q.block = Some(r.next() >> 8),
        6 | 7 => q.hash = Some(r.next() >> 8),
        _ => {}
    }
    q.upgrade = match r.below(3) {
        0 => None,
        _ => Some(r.next() >> 8),
    };
    if q.block.is_none() && q.hash.is_none() && q.upgrade.is_none() {
        q.upgrade = Some(r.next() >> 8);
    }
    if r.below(5) == 0 {
        q.seek = Some(r.next() >> 8);
    }
    q
}

/// replica-subject history: writer appends/clears on node 0, honest syncs and reopens on node 1
pub fn replica_history(r: &mut Rng, g: &mut G, n: usize, replicas: u8) -> Vec<Step> {
    let mut steps = vec![];
    // make sure there is something to replicate
    let k = r.range(1, 6);
    let blks: Vec<Blk> = (0..k).map(|_| g.blk(r)).collect();
    g.len += k;
    steps.push(Step::Batch { n: 0, blks });
    for _ in 0..n {
        let to = 1 + r.below(replicas.max(1) as u64) as u8;
        match r.below(20) {
            0 | 1 => {
                let blk = g.blk(r);
                g.len += 1;
                steps.push(Step::Append { n: 0, blk });
            }
            2 => {
                let k = r.range(2, 5);
                let blks: Vec<Blk> = (0..k).map(|_| g.blk(r)).collect();
                g.len += k;
                steps.push(Step::Batch { n: 0, blks });
            }
            3 => {
                let (s, e) = g.clear_range(r);
                steps.push(Step::Clear { n: 0, start: s, end: e.min(g.len + 2) });
            }
            4 | 5 => steps.push(Step::Reopen { n: to }),
            6 => steps.push(Step::Get { n: to, index: g.index(r) }),
            7 => steps.push(Step::Info { n: to }),
            _ => steps.push(Step::Sync { to, req: rand_req(r) }),
        }
    }
    steps
}

/// replica history where a share of the syncs is preceded by an altered proof (C04, C13)
pub fn tamper_history(r: &mut Rng, g: &mut G, n: usize, replicas: u8, all: bool) -> Vec<Step> {
    let base = replica_history(r, g, n, replicas);
    let mut steps = vec![];
    for s in base {
        match s {
            Step::Sync { to, req } => {
                if all {
                    if r.chance(1, 3) {
                        steps.push(Step::TamperAll { to, req });
                    } else {
                        steps.push(Step::Sync { to, req });
                    }
                } else if r.chance(2, 3) {
                    let mutation = crate::tamper::rand_mutation(r);
                    steps.push(Step::Tamper { to, req, mutation });
                } else {
                    steps.push(Step::Sync { to, req });
                }
            }
            other => steps.push(other),
        }
    }
    steps
}

/// boundary values around 0, len, 2*len and large values
pub fn boundary(r: &mut Rng, len: u64) -> u64 {
    let l = len;
    let c = [
        0u64, 1, 2, l.saturating_sub(1), l, l + 1, (2 * l).saturating_sub(1), 2 * l, 2 * l + 1,
        1 << 20, 1 << 32, (1 << 40) - 1,
    ];
    if r.chance(1, 6) {
        r.below(2 * l + 3)
    } else {
        *r.pick(&c)
    }
}

fn raw_nodes(r: &mut Rng, len: u64) -> Vec<crate::tamper::RawNode> {
    let k = match r.below(6) {
        0 => 0,
        1 => 1,
        _ => r.range(1, 5),
    };
    (0..k)
        .map(|_| crate::tamper::RawNode {
            index: if r.chance(3, 4) { r.below(2 * len + 4) } else { boundary(r, len) },
            size: if r.chance(1, 2) { r.below(64) } else { boundary(r, len) },
            kind: r.below(8).min(3) as u8 % 4,
            salt: r.next(),
        })
        .collect()
}

pub fn rand_raw_proof(r: &mut Rng, len: u64) -> crate::tamper::RawProofSpec {
    let mut p = crate::tamper::RawProofSpec { fork: if r.chance(1, 10) { 1 } else { 0 }, ..Default::default() };
    if r.chance(1, 2) {
        let idx = boundary(r, len);
        let vlen = if r.chance(1, 2) { u32::MAX } else { r.below(40) as u32 };
        p.block = Some((idx, vlen, raw_nodes(r, len)));
    } else if r.chance(1, 2) {
        p.hash = Some((boundary(r, len), raw_nodes(r, len)));
    }
    if r.chance(1, 4) {
        p.seek = Some((boundary(r, len * 8), raw_nodes(r, len)));
    }
    if r.chance(2, 3) {
        p.upgrade = Some(crate::tamper::RawUpgrade {
            start: boundary(r, len),
            length: boundary(r, len),
            nodes: raw_nodes(r, len),
            additional: if r.chance(1, 3) { raw_nodes(r, len) } else { vec![] },
            sig: r.below(5).min(3) as u8,
        });
    }
    p
}

/// C09: cores (writer and replica, empty / single-root / multi-root / with cleared blocks) under
/// byzantine requests and proofs, each followed by honest steps that must still match the model
pub fn byzantine_history(r: &mut Rng, g: &mut G, n: usize) -> Vec<Step> {
    let mut steps = vec![];
    // shape of the log
    match r.below(5) {
        0 => {}
        1 => {
            let blk = g.blk(r);
            g.len += 1;
            steps.push(Step::Append { n: 0, blk });
        }
        _ => {
            let k = *r.pick(&[2u64, 3, 4, 5, 7, 8, 9, 16, 17, 31]);
            let blks: Vec<Blk> = (0..k).map(|_| g.blk(r)).collect();
            g.len += k;
            steps.push(Step::Batch { n: 0, blks });
            if r.chance(1, 3) {
                let (s, e) = g.clear_range(r);
                steps.push(Step::Clear { n: 0, start: s, end: e.min(g.len + 1) });
            }
        }
    }
    // partially synced replica
    for _ in 0..r.below(4) {
        steps.push(Step::Sync { to: 1, req: rand_req(r) });
    }
    let nodes_vals = [0u64, 1, 2, 3, 64];
    for _ in 0..n {
        let node = r.below(2) as u8;
        let l = g.len;
        match r.below(10) {
            0..=4 => {
                let opt = |r: &mut Rng, p: u64| -> bool { r.below(10) < p };
                let block = if opt(r, 5) { Some((boundary(r, l), if r.chance(1, 2) { *r.pick(&nodes_vals) } else { r.below(8) })) } else { None };
                let hash = if opt(r, 3) { Some((boundary(r, l), *r.pick(&nodes_vals))) } else { None };
                let seek = if opt(r, 3) { Some(boundary(r, l * 8)) } else { None };
                let upgrade = if opt(r, 6) { Some((boundary(r, l), boundary(r, l))) } else { None };
                steps.push(Step::RawRequest { n: node, block, hash, seek, upgrade });
            }
            5..=7 => steps.push(Step::RawProof { n: node, proof: rand_raw_proof(r, l) }),
            8 => steps.push(Step::Tamper { to: 1, req: rand_req(r), mutation: crate::tamper::rand_mutation(r) }),
            _ => {
                // honest step: must still match the model
                if r.chance(1, 2) {
                    let blk = g.blk(r);
                    g.len += 1;
                    steps.push(Step::Append { n: 0, blk });
                } else {
                    steps.push(Step::Sync { to: 1, req: rand_req(r) });
                }
            }
        }
    }
    let blk = g.blk(r);
    g.len += 1;
    steps.push(Step::Append { n: 0, blk });
    steps.push(Step::Sync { to: 1, req: Req { block: Some(r.next() >> 8), upgrade: Some(u64::MAX >> 8), ..Default::default() } });
    steps.push(Step::Scan { n: 0 });
    steps.push(Step::Scan { n: 1 });
    steps
}

/// writer history that takes the length across a compact-encoding varint boundary (252/253,
/// 65535/65536) with a NON-flushing operation (the first op after open flushes, then every 4th),
/// followed by more unflushed operations and a reopen
pub fn varint_boundary_history(r: &mut Rng, g: &mut G) -> Vec<Step> {
    let boundary: u64 = if r.chance(1, 4) { 65536 } else { 253 };
    let mut steps = vec![];
    let below = boundary - r.range(1, 6);
    // op 1 (flushes): bring the log just below the boundary
    steps.push(Step::Fill { n: 0, count: below as u32, size: *r.pick(&[0u32, 1, 1, 2]), tag0: g.next_tag });
    g.next_tag += below as u32;
    g.len = below;
    if r.chance(1, 2) {
        steps.push(Step::Reopen { n: 0 });
        let blk = g.small_blk(1);
        g.len += 1;
        steps.push(Step::Append { n: 0, blk }); // flushing op after the reopen
    }
    // 0..2 non-flushing fillers, then the crossing op, then 1..3 more ops, then reopen
    for _ in 0..r.below(3) {
        if g.len + 1 < boundary {
            let blk = g.small_blk(r.below(3) as u32);
            g.len += 1;
            steps.push(Step::Append { n: 0, blk });
        }
    }
    let need = boundary - g.len;
    let k = need + r.below(4);
    let blks: Vec<Blk> = (0..k).map(|_| g.small_blk(1)).collect();
    g.len += k;
    steps.push(Step::Batch { n: 0, blks });
    for _ in 0..r.range(1, 3) {
        match r.below(3) {
            0 => {
                let (s, e) = g.clear_range(r);
                steps.push(Step::Clear { n: 0, start: s, end: e.min(g.len) });
            }
            _ => {
                let blk = g.small_blk(r.below(4) as u32);
                g.len += 1;
                steps.push(Step::Append { n: 0, blk });
            }
        }
    }
    steps.push(Step::Reopen { n: 0 });
    steps.push(Step::Info { n: 0 });
    let blk = g.small_blk(2);
    g.len += 1;
    steps.push(Step::Append { n: 0, blk });
    steps.push(Step::Reopen { n: 0 });
    steps
}

/// writer history with repeated process deaths: after some operations the process dies having
/// lost the last 0..6 storage operations of its last call, is restarted, and goes on
pub fn multi_crash_history(r: &mut Rng, g: &mut G, n: usize) -> Vec<Step> {
    let mut steps = vec![];
    if r.chance(1, 2) {
        // uniform single-block appends (equal-sized log entries) and crashes biased to lose exactly
        // the oplog truncate that follows a header write: stale entries then stay behind newer
        // ones and can line up with the end of the log once the header bit has cycled
        for _ in 0..(n * 2) {
            for _ in 0..r.range(1, 4) {
                let blk = g.small_blk(1);
                g.len += 1;
                steps.push(Step::Append { n: 0, blk });
            }
            let back = *r.pick(&[1u32, 1, 1, 1, 0, 2, 3, 4, 5, 6]);
            steps.push(Step::CrashRestart { n: 0, back });
        }
        steps.push(Step::Reopen { n: 0 });
        return steps;
    }
    let (mix, _) = pick_mix(r);
    for _ in 0..n {
        let k = r.range(1, 3) as usize;
        let mut chunk = writer_history(r, g, k, mix);
        chunk.retain(|s| !matches!(s, Step::MakeReadOnly { .. }));
        steps.extend(chunk);
        if r.chance(2, 3) {
            steps.push(Step::CrashRestart { n: 0, back: r.below(7) as u32 });
        }
    }
    steps.push(Step::Reopen { n: 0 });
    steps
}
