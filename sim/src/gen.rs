//! Seeded trace generators (swarm style) and step simplification for the minimiser.

use crate::model::Blk;
use crate::rng::Rng;
use crate::world::{Req, Step};

/// light generator-side tracking so that indices are meaningful
#[derive(Clone, Debug, Default)]
pub struct G {
    pub len: u64,
    pub next_tag: u32,
    pub cleared: Vec<(u64, u64)>,
    /// replica lengths as the generator believes them (index = node)
    pub rlen: Vec<u64>,
}

impl G {
    pub fn new(run: u64) -> G {
        G { len: 0, next_tag: ((run as u32) << 12) & 0x3fff_ffff, cleared: vec![], rlen: vec![0; 8] }
    }
    pub fn blk(&mut self, r: &mut Rng) -> Blk {
        let tag = self.next_tag;
        self.next_tag = (self.next_tag + 1) & 0x3fff_ffff;
        let len = match r.below(40) {
            0..=4 => 0,
            5 | 6 => r.range(4096, 12288) as u32,
            7 => 1,
            _ => r.range(1, 40) as u32,
        };
        Blk { tag, len }
    }
    pub fn small_blk(&mut self, len: u32) -> Blk {
        let tag = self.next_tag;
        self.next_tag = (self.next_tag + 1) & 0x3fff_ffff;
        Blk { tag, len }
    }
    pub fn index(&self, r: &mut Rng) -> u64 {
        let l = self.len;
        match r.below(20) {
            0 => l,
            1 => l + 1,
            2 => *r.pick(&[8191u64, 8192, 32767, 32768, 65535, 65536]),
            3 => *r.pick(&[1u64 << 32, 1 << 40, u64::MAX, u64::MAX - 1]),
            _ => {
                if l == 0 {
                    0
                } else {
                    r.below(l)
                }
            }
        }
    }
    pub fn clear_range(&self, r: &mut Rng) -> (u64, u64) {
        let l = self.len.max(1);
        let s = r.below(l);
        let e = match r.below(10) {
            0 => l + r.range(1, 5),               // beyond the end
            1 => l,                               // exactly to the end
            2 => l + *r.pick(&[100u64, 32768, 70000]),
            3 | 4 => s + 1,
            _ => s + 1 + r.below((l - s).max(1)),
        };
        (s, e)
    }
}

#[derive(Clone, Copy, Debug)]
pub struct Mix {
    pub append: u64,
    pub batch: u64,
    pub clear: u64,
    pub read: u64,
    pub reopen: u64,
    pub mro: u64,
}

pub fn pick_mix(r: &mut Rng) -> (Mix, &'static str) {
    match r.below(7) {
        0 => (Mix { append: 6, batch: 3, clear: 2, read: 4, reopen: 3, mro: 0 }, "balanced"),
        1 => (Mix { append: 4, batch: 2, clear: 8, read: 3, reopen: 3, mro: 0 }, "clear-heavy"),
        2 => (Mix { append: 5, batch: 3, clear: 3, read: 1, reopen: 12, mro: 0 }, "reopen-heavy"),
        3 => (Mix { append: 2, batch: 10, clear: 2, read: 2, reopen: 3, mro: 0 }, "batch-heavy"),
        4 => (Mix { append: 10, batch: 0, clear: 0, read: 2, reopen: 4, mro: 0 }, "append-reopen"),
        5 => (Mix { append: 5, batch: 2, clear: 4, read: 6, reopen: 2, mro: 1 }, "with-read-only"),
        _ => (Mix { append: 3, batch: 3, clear: 6, read: 2, reopen: 6, mro: 0 }, "clear-reopen"),
    }
}

/// writer-only history of `n` steps on node 0
pub fn writer_history(r: &mut Rng, g: &mut G, n: usize, mix: Mix) -> Vec<Step> {
    let mut steps = vec![];
    let total = mix.append + mix.batch + mix.clear + mix.read + mix.reopen + mix.mro;
    for _ in 0..n {
        let mut x = r.below(total);
        if x < mix.append {
            let blk = g.blk(r);
            g.len += 1;
            steps.push(Step::Append { n: 0, blk });
            continue;
        }
        x -= mix.append;
        if x < mix.batch {
            let k = match r.below(8) {
                0 => 0,
                1 => 1,
                _ => r.range(2, 6),
            };
            let blks: Vec<Blk> = (0..k).map(|_| g.blk(r)).collect();
            g.len += k;
            steps.push(Step::Batch { n: 0, blks });
            continue;
        }
        x -= mix.batch;
        if x < mix.clear {
            if g.len == 0 {
                let blk = g.blk(r);
                g.len += 1;
                steps.push(Step::Append { n: 0, blk });
            } else {
                let (s, e) = g.clear_range(r);
                g.cleared.push((s, e));
                steps.push(Step::Clear { n: 0, start: s, end: e });
            }
            continue;
        }
        x -= mix.clear;
        if x < mix.read {
            let i = g.index(r);
            steps.push(match r.below(4) {
                0 => Step::Has { n: 0, index: i },
                1 => Step::Info { n: 0 },
                _ => Step::Get { n: 0, index: i },
            });
            continue;
        }
        x -= mix.read;
        if x < mix.reopen {
            steps.push(Step::Reopen { n: 0 });
            continue;
        }
        steps.push(Step::MakeReadOnly { n: 0 });
    }
    steps
}

/// the 9-letter alphabet of the systematic sweep; letters are concretised against the
/// generator-side length
pub fn sweep_trace(mut code: u64, len: usize, g: &mut G) -> Vec<Step> {
    let mut steps = vec![];
    for _ in 0..len {
        let letter = code % 9;
        code /= 9;
        match letter {
            0 => {
                steps.push(Step::Append { n: 0, blk: g.small_blk(0) });
                g.len += 1;
            }
            1 => {
                steps.push(Step::Append { n: 0, blk: g.small_blk(3) });
                g.len += 1;
            }
            2 => steps.push(Step::Batch { n: 0, blks: vec![] }),
            3 => {
                let blks = vec![g.small_blk(1), g.small_blk(0), g.small_blk(5)];
                g.len += 3;
                steps.push(Step::Batch { n: 0, blks });
            }
            4 => steps.push(Step::Clear { n: 0, start: 0, end: 1 }),
            5 => {
                let s = g.len.saturating_sub(1);
                steps.push(Step::Clear { n: 0, start: s, end: s + 1 });
            }
            6 => {
                let s = g.len.saturating_sub(2);
                steps.push(Step::Clear { n: 0, start: s, end: g.len + 3 });
            }
            7 => steps.push(Step::Reopen { n: 0 }),
            _ => {
                steps.push(Step::Info { n: 0 });
                steps.push(Step::Scan { n: 0 });
            }
        }
    }
    steps
}

/// number of sweep traces of length 1..=max_len
pub fn sweep_count(max_len: usize) -> u64 {
    (1..=max_len).map(|l| 9u64.pow(l as u32)).sum()
}

pub fn sweep_decode(mut idx: u64, max_len: usize) -> (u64, usize) {
    for l in 1..=max_len {
        let c = 9u64.pow(l as u32);
        if idx < c {
            return (idx, l);
        }
        idx -= c;
    }
    (0, 1)
}

/// large family: cross the 8192 / 32768 / 65536 index boundaries
pub fn large_history(r: &mut Rng, g: &mut G) -> Vec<Step> {
    let mut steps = vec![];
    let first = *r.pick(&[8190u32, 9000, 32766, 33000, 40000, 65530, 66000, 70000]);
    let size = *r.pick(&[1u32, 1, 1, 0, 2]);
    steps.push(Step::Fill { n: 0, count: first, size, tag0: g.next_tag });
    g.next_tag = (g.next_tag + first) & 0x3fff_ffff;
    g.len += first as u64;
    let extra = r.range(3, 9);
    for _ in 0..extra {
        match r.below(8) {
            0 | 1 => steps.push(Step::Reopen { n: 0 }),
            2 => {
                let c = *r.pick(&[1u32, 3, 40, 2000, 30000]);
                steps.push(Step::Fill { n: 0, count: c, size: 1, tag0: g.next_tag });
                g.next_tag = (g.next_tag + c) & 0x3fff_ffff;
                g.len += c as u64;
            }
            3 | 4 => {
                // clear straddling a page edge or a word edge
                let edges: Vec<u64> =
                    [8192u64, 32768, 65536, 1024, 32, 40960].iter().copied().filter(|e| *e < g.len).collect();
                let (s, e) = if edges.is_empty() || r.chance(1, 4) {
                    g.clear_range(r)
                } else {
                    let edge = *r.pick(&edges);
                    let s = edge - r.range(0, 3).min(edge);
                    (s, (edge + r.range(0, 4)).max(s + 1))
                };
                steps.push(Step::Clear { n: 0, start: s, end: e });
                steps.push(Step::Reopen { n: 0 });
            }
            5 => {
                let blk = g.blk(r);
                g.len += 1;
                steps.push(Step::Append { n: 0, blk });
            }
            6 => {
                // clear in the middle of the contiguous run, then reopen before the next flush
                let s = r.below(g.len.max(1));
                steps.push(Step::Clear { n: 0, start: s, end: s + r.range(1, 3) });
            }
            _ => steps.push(Step::Get { n: 0, index: g.index(r) }),
        }
    }
    steps.push(Step::Reopen { n: 0 });
    steps
}

/// simpler variants of one step for the minimiser (same kind or simpler kind)
pub fn simpler(s: &Step) -> Vec<Step> {
    let mut v = vec![];
    match s {
        Step::Batch { n, blks } => {
            if blks.len() > 1 {
                v.push(Step::Batch { n: *n, blks: blks[..1].to_vec() });
                v.push(Step::Batch { n: *n, blks: blks[..blks.len() - 1].to_vec() });
            }
            if blks.len() == 1 {
                v.push(Step::Append { n: *n, blk: blks[0] });
            }
            for (i, b) in blks.iter().enumerate() {
                if b.len > 3 {
                    let mut c = blks.clone();
                    c[i].len = 1;
                    v.push(Step::Batch { n: *n, blks: c });
                }
            }
        }
        Step::Append { n, blk } => {
            for l in [0u32, 1, 3] {
                if blk.len > l {
                    v.push(Step::Append { n: *n, blk: Blk { tag: blk.tag, len: l } });
                }
            }
        }
        Step::Fill { n, count, size, tag0 } => {
            for c in [1u32, 3, 33, 1025, 8193, 32769, count / 2] {
                if c < *count && c > 0 {
                    v.push(Step::Fill { n: *n, count: c, size: *size, tag0: *tag0 });
                }
            }
        }
        Step::Clear { n, start, end } => {
            if *end > start + 1 {
                v.push(Step::Clear { n: *n, start: *start, end: start + 1 });
                v.push(Step::Clear { n: *n, start: *start, end: (start + end) / 2 + 1 });
            }
        }
        Step::Sync { to, req } => {
            if req.seek.is_some() {
                v.push(Step::Sync { to: *to, req: Req { seek: None, ..req.clone() } });
            }
            if req.hash.is_some() && req.block.is_none() {
                v.push(Step::Sync {
                    to: *to,
                    req: Req { hash: None, block: Some(req.hash.unwrap() / 2), ..req.clone() },
                });
            }
        }
        _ => {}
    }
    v
}

/// random symbolic replication request
pub fn rand_req(r: &mut Rng) -> Req {
    let mut q = Req::default();
    match r.below(10) {
        0..=5 => q.block = Some(r.next() >> 8),
        6 | 7 => q.hash = Some(r.next() >> 8),
        _ => {}
    }
    q.upgrade = match r.below(3) {
        0 => None,
        _ => Some(r.next() >> 8),
    };
    if q.block.is_none() && q.hash.is_none() && q.upgrade.is_none() {
        q.upgrade = Some(r.next() >> 8);
    }
    if r.below(5) == 0 {
        q.seek = Some(r.next() >> 8);
    }
    q
}

/// replica-subject history: writer appends/clears on node 0, honest syncs and reopens on node 1
pub fn replica_history(r: &mut Rng, g: &mut G, n: usize, replicas: u8) -> Vec<Step> {
    let mut steps = vec![];
    // make sure there is something to replicate
    let k = r.range(1, 6);
    let blks: Vec<Blk> = (0..k).map(|_| g.blk(r)).collect();
    g.len += k;
    steps.push(Step::Batch { n: 0, blks });
    for _ in 0..n {
        let to = 1 + r.below(replicas.max(1) as u64) as u8;
        match r.below(20) {
            0 | 1 => {
                let blk = g.blk(r);
                g.len += 1;
                steps.push(Step::Append { n: 0, blk });
            }
            2 => {
                let k = r.range(2, 5);
                let blks: Vec<Blk> = (0..k).map(|_| g.blk(r)).collect();
                g.len += k;
                steps.push(Step::Batch { n: 0, blks });
            }
            3 => {
                let (s, e) = g.clear_range(r);
                steps.push(Step::Clear { n: 0, start: s, end: e.min(g.len + 2) });
            }
            4 | 5 => steps.push(Step::Reopen { n: to }),
            6 => steps.push(Step::Get { n: to, index: g.index(r) }),
            7 => steps.push(Step::Info { n: to }),
            _ => steps.push(Step::Sync { to, req: rand_req(r) }),
        }
    }
    steps
}
