//! Single-threaded deterministic executor pieces: budgeted block_on, panic guard, multi-task
//! scheduler (C15), wall-clock watchdog backstop for pure CPU loops.

use std::cell::RefCell;
use std::future::Future;
use std::panic::{catch_unwind, AssertUnwindSafe};
use std::pin::Pin;
use std::sync::atomic::{AtomicBool, AtomicU64, Ordering};
use std::sync::{Arc, Mutex};
use std::task::{Context, Poll, RawWaker, RawWakerVTable, Wake, Waker};
use std::time::Instant;

thread_local! {
    static LAST_PANIC: RefCell<Option<String>> = const { RefCell::new(None) };
}

pub fn take_last_panic() -> String {
    LAST_PANIC.with(|p| p.borrow_mut().take()).unwrap_or_else(|| "panic".into())
}

pub fn install_panic_hook() {
    std::panic::set_hook(Box::new(|info| {
        let msg = if let Some(s) = info.payload().downcast_ref::<&str>() {
            s.to_string()
        } else if let Some(s) = info.payload().downcast_ref::<String>() {
            s.clone()
        } else {
            "panic".to_string()
        };
        let loc = info
            .location()
            .map(|l| format!("{}:{}", l.file(), l.line()))
            .unwrap_or_default();
        LAST_PANIC.with(|p| *p.borrow_mut() = Some(format!("{msg} @ {loc}")));
        if std::env::var("HCSIM_SHOW_PANICS").is_ok() {
            eprintln!("panic: {msg} @ {loc}");
        }
    }));
}

/// Result of a guarded call into the crate under test.
#[derive(Debug)]
pub enum Guarded<T> {
    Done(T),
    Panic(String),
    /// future still pending after the poll budget, with nobody to wake it
    Hang(String),
}

fn noop_raw() -> RawWaker {
    fn clone(_: *const ()) -> RawWaker {
        noop_raw()
    }
    fn noop(_: *const ()) {}
    static VT: RawWakerVTable = RawWakerVTable::new(clone, noop, noop, noop);
    RawWaker::new(std::ptr::null(), &VT)
}
pub fn noop_waker() -> Waker {
    // SAFETY: vtable functions are no-ops on a null pointer
    unsafe { Waker::from_raw(noop_raw()) }
}

pub const POLL_BUDGET: u64 = 50_000_000;

/// Poll a future to completion on this thread, catching panics. Pending is simply re-polled
/// (SimDisk's yield wakes itself); a budget bounds runaway loops that do yield.
thread_local! {
    static TOKIO: RefCell<Option<tokio::runtime::Runtime>> = const { RefCell::new(None) };
}

/// C14 disk arm: random-access-disk needs a tokio context for its blocking file operations
pub fn enable_tokio() {
    TOKIO.with(|t| {
        if t.borrow().is_none() {
            let rt = tokio::runtime::Builder::new_current_thread()
                .max_blocking_threads(2)
                .build()
                .expect("tokio runtime");
            *t.borrow_mut() = Some(rt);
        }
    });
}

pub fn run<T>(fut: impl Future<Output = T>) -> Guarded<T> {
    let mut fut = Box::pin(fut);
    let waker = noop_waker();
    let mut cx = Context::from_waker(&waker);
    let r = catch_unwind(AssertUnwindSafe(|| {
        let tk = TOKIO.with(|t| t.borrow().as_ref().map(|rt| rt.handle().clone()));
        let _guard = tk.as_ref().map(|h| h.enter());
        let mut polls = 0u64;
        loop {
            match fut.as_mut().poll(&mut cx) {
                Poll::Ready(v) => return Ok(v),
                Poll::Pending => {
                    if tk.is_some() {
                        std::thread::yield_now();
                    }
                    polls += 1;
                    if polls > POLL_BUDGET {
                        return Err(format!("still pending after {polls} polls"));
                    }
                }
            }
        }
    }));
    match r {
        Ok(Ok(v)) => Guarded::Done(v),
        Ok(Err(h)) => Guarded::Hang(h),
        Err(_) => {
            // the future is dropped while unwinding state may be broken; drop errors are ignored
            let m = LAST_PANIC.with(|p| p.borrow_mut().take()).unwrap_or_else(|| "panic".into());
            let _ = catch_unwind(AssertUnwindSafe(move || drop(fut)));
            Guarded::Panic(m)
        }
    }
}

pub fn guard_sync<T>(f: impl FnOnce() -> T) -> Guarded<T> {
    match catch_unwind(AssertUnwindSafe(f)) {
        Ok(v) => Guarded::Done(v),
        Err(_) => Guarded::Panic(
            LAST_PANIC.with(|p| p.borrow_mut().take()).unwrap_or_else(|| "panic".into()),
        ),
    }
}

// ---------------------------------------------------------------------------------------------
// Watchdog: each worker publishes what it is about to execute and bumps an epoch at every
// public call; a background thread samples the worker's *thread CPU time* (/proc/self/task/<tid>/
// stat) and exits the process with a VIOLATION line when one call has consumed more than the
// limit of CPU seconds without returning (pure CPU loop backstop). CPU time, not wall-clock time,
// so that a loaded machine cannot raise a false alarm.

#[derive(Default)]
pub struct Slot {
    pub active: bool,
    pub prop: String,
    pub label: String,
    /// replay JSON to persist if this call never returns
    pub replay_json: String,
    pub tid: u64,
}

pub struct Watchdog {
    pub slots: Vec<Mutex<Slot>>,
    pub epochs: Vec<AtomicU64>,
    pub limit_s: AtomicU64,
    pub stop: AtomicBool,
}

fn thread_id() -> u64 {
    std::fs::read_link("/proc/thread-self")
        .ok()
        .and_then(|p| p.file_name().map(|f| f.to_string_lossy().to_string()))
        .and_then(|s| s.parse().ok())
        .unwrap_or(0)
}

/// user+system CPU ticks (1/100 s) consumed by thread `tid` of this process
fn thread_cpu_ticks(tid: u64) -> Option<u64> {
    let s = std::fs::read_to_string(format!("/proc/self/task/{tid}/stat")).ok()?;
    let rest = &s[s.rfind(')')? + 2..];
    let f: Vec<&str> = rest.split(' ').collect();
    // fields after the command: state is index 0, utime index 11, stime index 12
    let ut: u64 = f.get(11)?.parse().ok()?;
    let st: u64 = f.get(12)?.parse().ok()?;
    Some(ut + st)
}

impl Watchdog {
    pub fn new(workers: usize, limit_s: u64) -> Arc<Watchdog> {
        Arc::new(Watchdog {
            slots: (0..workers).map(|_| Mutex::new(Slot::default())).collect(),
            epochs: (0..workers).map(|_| AtomicU64::new(0)).collect(),
            limit_s: AtomicU64::new(limit_s),
            stop: AtomicBool::new(false),
        })
    }
    pub fn enter(&self, w: usize, prop: &str, label: &str, replay_json: impl FnOnce() -> String) {
        let mut s = self.slots[w].lock().unwrap();
        s.active = true;
        s.prop = prop.to_string();
        s.label = label.to_string();
        s.replay_json = replay_json();
        if s.tid == 0 {
            s.tid = thread_id();
        }
        self.epochs[w].fetch_add(1, Ordering::SeqCst);
    }
    pub fn touch(&self, w: usize) {
        self.epochs[w].fetch_add(1, Ordering::Relaxed);
    }
    pub fn leave(&self, w: usize) {
        let mut s = self.slots[w].lock().unwrap();
        s.active = false;
        s.replay_json.clear();
        self.epochs[w].fetch_add(1, Ordering::SeqCst);
    }
}

// ---------------------------------------------------------------------------------------------
// Multi-task scheduler for W3 (C15).

pub struct TaskWaker {
    pub ready: AtomicBool,
}
impl Wake for TaskWaker {
    fn wake(self: Arc<Self>) {
        self.ready.store(true, Ordering::SeqCst);
    }
    fn wake_by_ref(self: &Arc<Self>) {
        self.ready.store(true, Ordering::SeqCst);
    }
}

pub struct Task<'a> {
    pub fut: Option<Pin<Box<dyn Future<Output = ()> + 'a>>>,
    pub waker: Arc<TaskWaker>,
}

pub enum SchedOutcome {
    /// barging-mode run in which a parked task waited longer than the safety margin of
    /// async-lock's 500 us wall-clock starvation threshold: schedule semantics not guaranteed
    Tainted,
    AllDone,
    Deadlock(Vec<usize>),
    Budget,
    Panic(usize, String),
}

/// Run tasks; `choose(ready_ids, step_no)` picks the next task among the ready ones.
/// Returns the schedule actually taken.
pub fn run_tasks<'a>(
    tasks: &mut Vec<Task<'a>>,
    mut choose: impl FnMut(&[usize], usize) -> usize,
    step_budget: usize,
    park_sleep: Option<std::time::Duration>,
) -> (SchedOutcome, Vec<u32>) {
    let mut schedule: Vec<u32> = vec![];
    let mut steps = 0usize;
    let mut park_since: Vec<Option<Instant>> = vec![None; tasks.len()];
    loop {
        let alive: Vec<usize> = (0..tasks.len()).filter(|i| tasks[*i].fut.is_some()).collect();
        if alive.is_empty() {
            return (SchedOutcome::AllDone, schedule);
        }
        let ready: Vec<usize> = alive
            .iter()
            .copied()
            .filter(|i| tasks[*i].waker.ready.load(Ordering::SeqCst))
            .collect();
        if ready.is_empty() {
            return (SchedOutcome::Deadlock(alive), schedule);
        }
        if steps >= step_budget {
            return (SchedOutcome::Budget, schedule);
        }
        let t = choose(&ready, steps);
        debug_assert!(ready.contains(&t));
        steps += 1;
        schedule.push(t as u32);
        tasks[t].waker.ready.store(false, Ordering::SeqCst);
        let poll_begin = Instant::now();
        let waker = Waker::from(tasks[t].waker.clone());
        let mut cx = Context::from_waker(&waker);
        let fut = tasks[t].fut.as_mut().unwrap();
        let r = catch_unwind(AssertUnwindSafe(|| fut.as_mut().poll(&mut cx)));
        match r {
            Ok(Poll::Ready(())) => {
                tasks[t].fut = None;
                if park_sleep.is_none() {
                    if let Some(since) = park_since[t] {
                        if since.elapsed() > std::time::Duration::from_micros(480) {
                            return (SchedOutcome::Tainted, schedule);
                        }
                    }
                }
                park_since[t] = None;
            }
            Ok(Poll::Pending) => {
                // Pending without a self-wake = parked on the async mutex. async-lock hands the
                // lock over fairly only to waiters that have waited > 500 us of WALL-CLOCK time
                // (a clock inside a dependency that cannot be seamed); in "starved" runs that
                // state is forced by really waiting longer than the threshold.
                // Barging-mode guarantee: the mutex compares (its check time - start of the slow
                // acquire) with 500 us. The slow acquire started during the poll in which the task
                // parked, i.e. not before that poll began, and every later check happens before the
                // poll that performs it ends. So if (end of this poll - begin of the parking poll)
                // stays below the threshold, no waiter can have been marked starved.
                if park_sleep.is_none() {
                    if let Some(since) = park_since[t] {
                        if since.elapsed() > std::time::Duration::from_micros(480) {
                            return (SchedOutcome::Tainted, schedule);
                        }
                    }
                }
                if !tasks[t].waker.ready.load(Ordering::SeqCst) {
                    if park_since[t].is_none() {
                        park_since[t] = Some(poll_begin);
                    }
                    if let Some(d) = park_sleep {
                        std::thread::sleep(d);
                    }
                } else {
                    park_since[t] = None;
                }
            }
            Err(_) => {
                let m =
                    LAST_PANIC.with(|p| p.borrow_mut().take()).unwrap_or_else(|| "panic".into());
                return (SchedOutcome::Panic(t, m), schedule);
            }
        }
    }
}

// ---------------------------------------------------------------------------------------------
// Global watchdog plumbing (worker id is thread-local)

use std::cell::Cell;
use std::sync::OnceLock;

thread_local! {
    static WORKER: Cell<usize> = const { Cell::new(0) };
}
static WD: OnceLock<Arc<Watchdog>> = OnceLock::new();

pub fn set_worker(w: usize) {
    WORKER.with(|c| c.set(w));
}

/// Starts the watchdog thread. `on_timeout(prop, label, replay_json)` must not return.
pub fn start_watchdog(
    workers: usize,
    limit_s: u64,
    on_timeout: impl Fn(&str, &str, &str) + Send + 'static,
) {
    let wd = Watchdog::new(workers.max(1) + 1, limit_s);
    let _ = WD.set(wd.clone());
    std::thread::spawn(move || {
        let n = wd.slots.len();
        // per slot: (epoch seen, cpu ticks at that epoch, wall instant at that epoch)
        let mut seen: Vec<(u64, Option<u64>, Instant)> = vec![(u64::MAX, None, Instant::now()); n];
        loop {
            std::thread::sleep(std::time::Duration::from_millis(500));
            if wd.stop.load(Ordering::SeqCst) {
                return;
            }
            let lim = wd.limit_s.load(Ordering::SeqCst);
            for i in 0..n {
                let e = wd.epochs[i].load(Ordering::SeqCst);
                let s = wd.slots[i].lock().unwrap();
                if !s.active {
                    seen[i].0 = u64::MAX;
                    continue;
                }
                let cpu = thread_cpu_ticks(s.tid);
                if seen[i].0 != e {
                    seen[i] = (e, cpu, Instant::now());
                    continue;
                }
                // same call as at the last sample: how much CPU has it burnt since?
                let burnt_s = match (cpu, seen[i].1) {
                    (Some(now), Some(then)) => now.saturating_sub(then) / 100,
                    _ => 0,
                };
                // wall-clock backstop only if CPU accounting is unavailable
                let wall_s = seen[i].2.elapsed().as_secs();
                if burnt_s >= lim || (cpu.is_none() && wall_s >= lim * 20) {
                    let (prop, label, json) = (s.prop.clone(), s.label.clone(), s.replay_json.clone());
                    drop(s);
                    // returns only if the stall did not replay: start counting afresh
                    on_timeout(&prop, &label, &json);
                    seen[i] = (e, cpu, Instant::now());
                }
            }
        }
    });
}

pub fn wd_enter(prop: &str, label: &str, replay_json: impl FnOnce() -> String) {
    if let Some(wd) = WD.get() {
        let w = WORKER.with(|c| c.get());
        if w < wd.slots.len() {
            wd.enter(w, prop, label, replay_json);
        }
    }
}
pub fn wd_touch() {
    if let Some(wd) = WD.get() {
        let w = WORKER.with(|c| c.get());
        if w < wd.slots.len() {
            wd.touch(w);
        }
    }
}
pub fn wd_leave() {
    if let Some(wd) = WD.get() {
        let w = WORKER.with(|c| c.get());
        if w < wd.slots.len() {
            wd.leave(w);
        }
    }
}
