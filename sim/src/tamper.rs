//! Proof alterations (C04) and structurally arbitrary proofs (C09). Filled in with W2.
use serde::{Deserialize, Serialize};

#[derive(Clone, Debug, Serialize, Deserialize, PartialEq)]
pub enum Mutation {
    None,
}

#[derive(Clone, Debug, Serialize, Deserialize, PartialEq, Default)]
pub struct RawProofSpec {
    pub fork: u64,
}
