//! Proof alterations and forgeries (C04) and structurally arbitrary proofs (C09).

use crate::exec;
use crate::world::{Req, Res, World};
use ed25519_dalek::Signer;
use hypercore::{DataBlock, DataHash, DataSeek, DataUpgrade, Node, Proof};
use serde::{Deserialize, Serialize};

#[derive(Clone, Copy, Debug, Serialize, Deserialize, PartialEq, Eq)]
pub enum Sec {
    Block,
    Hash,
    Seek,
    Upgrade,
    Additional,
}
pub const SECS: [Sec; 5] = [Sec::Block, Sec::Hash, Sec::Seek, Sec::Upgrade, Sec::Additional];

#[derive(Clone, Debug, Serialize, Deserialize, PartialEq)]
pub enum Mutation {
    None,
    FlipValue { bit: u32 },
    FlipNodeHash { sec: Sec, idx: u32, bit: u32 },
    FlipSignature { bit: u32 },
    Fork { delta: i64 },
    BlockIndex { delta: i64 },
    HashIndex { delta: i64 },
    SeekBytes { delta: i64 },
    UpgradeStart { delta: i64 },
    UpgradeLength { delta: i64 },
    NodeIndex { sec: Sec, idx: u32, delta: i64 },
    NodeSize { sec: Sec, idx: u32, delta: i64 },
    DropNode { sec: Sec, idx: u32 },
    DupNode { sec: Sec, idx: u32 },
    SwapNodes { sec: Sec, idx: u32 },
    InsertNode { sec: Sec, idx: u32 },
    RemoveSection { sec: Sec },
    /// replace the block value (same or different length); parents are recomputed by the verifier
    SubstituteBlock { same_len: bool },
    /// signature by another key over the true signable
    ForeignSignature,
    /// the writer's own signature for another length
    StaleSignature,
    /// a whole, self-consistent proof of the same shape from a different writer
    ForeignWriter,
    /// signature truncated / extended
    SignatureLength { len: u32 },
    /// a forged block section (arbitrary value, no nodes) added to a proof that has none
    AddBlockSection { index: u64, copy_hash_nodes: bool },
    /// the honest hash section's node list re-used as a hash section for another index
    AddHashSection { delta: i64 },
    /// a seek section with forged nodes added
    AddSeekSection { nodes: u32 },
}

pub fn node_parts(n: &Node) -> (u64, u64, Vec<u8>) {
    use compact_encoding::CompactEncoding;
    let sz = n.encoded_size().unwrap_or(0);
    let mut buf = vec![0u8; sz];
    if n.encode(&mut buf).is_err() {
        // hash not 32 bytes: fall back to Debug parsing is not needed for honest nodes
        return (0, 0, vec![]);
    }
    let (index, r1) = varint(&buf);
    let (len, r2) = varint(&buf[r1..]);
    (index, len, buf[r1 + r2..].to_vec())
}

fn varint(b: &[u8]) -> (u64, usize) {
    match b[0] {
        0xfd => (u16::from_le_bytes([b[1], b[2]]) as u64, 3),
        0xfe => (u32::from_le_bytes([b[1], b[2], b[3], b[4]]) as u64, 5),
        0xff => (u64::from_le_bytes(b[1..9].try_into().unwrap()), 9),
        x => (x as u64, 1),
    }
}

fn sec_nodes<'a>(p: &'a mut Proof, sec: Sec) -> Option<&'a mut Vec<Node>> {
    match sec {
        Sec::Block => p.block.as_mut().map(|b| &mut b.nodes),
        Sec::Hash => p.hash.as_mut().map(|b| &mut b.nodes),
        Sec::Seek => p.seek.as_mut().map(|b| &mut b.nodes),
        Sec::Upgrade => p.upgrade.as_mut().map(|b| &mut b.nodes),
        Sec::Additional => p.upgrade.as_mut().map(|b| &mut b.additional_nodes),
    }
}

fn add(v: u64, d: i64) -> Option<u64> {
    if d >= 0 {
        v.checked_add(d as u64)
    } else {
        v.checked_sub((-d) as u64)
    }
}

/// Apply a mutation; None = not applicable to this proof (nothing offered).
pub fn mutate(honest: &Proof, m: &Mutation, w: &World) -> Option<Proof> {
    let mut p = honest.clone();
    match m {
        Mutation::None => return None,
        Mutation::FlipValue { bit } => {
            let b = p.block.as_mut()?;
            if b.value.is_empty() {
                b.value.push(1);
            } else {
                let i = (*bit as usize / 8) % b.value.len();
                b.value[i] ^= 1 << (bit % 8);
            }
        }
        Mutation::FlipNodeHash { sec, idx, bit } => {
            let v = sec_nodes(&mut p, *sec)?;
            if v.is_empty() {
                return None;
            }
            let i = *idx as usize % v.len();
            let (index, len, mut hash) = node_parts(&v[i]);
            if hash.len() != 32 {
                return None;
            }
            hash[(*bit as usize / 8) % 32] ^= 1 << (bit % 8);
            v[i] = Node::new(index, hash, len);
        }
        Mutation::FlipSignature { bit } => {
            let u = p.upgrade.as_mut()?;
            if u.signature.is_empty() {
                return None;
            }
            let i = (*bit as usize / 8) % u.signature.len();
            u.signature[i] ^= 1 << (bit % 8);
        }
        Mutation::SignatureLength { len } => {
            let u = p.upgrade.as_mut()?;
            if u.signature.len() == *len as usize {
                return None;
            }
            u.signature.resize(*len as usize, 7);
        }
        Mutation::Fork { delta } => p.fork = add(p.fork, *delta)?,
        Mutation::BlockIndex { delta } => {
            let b = p.block.as_mut()?;
            b.index = add(b.index, *delta)?;
        }
        Mutation::HashIndex { delta } => {
            let b = p.hash.as_mut()?;
            b.index = add(b.index, *delta)?;
        }
        Mutation::SeekBytes { delta } => {
            let b = p.seek.as_mut()?;
            b.bytes = add(b.bytes, *delta)?;
        }
        Mutation::UpgradeStart { delta } => {
            let b = p.upgrade.as_mut()?;
            b.start = add(b.start, *delta)?;
        }
        Mutation::UpgradeLength { delta } => {
            let b = p.upgrade.as_mut()?;
            b.length = add(b.length, *delta)?;
        }
        Mutation::NodeIndex { sec, idx, delta } => {
            let v = sec_nodes(&mut p, *sec)?;
            if v.is_empty() {
                return None;
            }
            let i = *idx as usize % v.len();
            let (index, len, hash) = node_parts(&v[i]);
            v[i] = Node::new(add(index, *delta)?, hash, len);
        }
        Mutation::NodeSize { sec, idx, delta } => {
            let is_seek = *sec == Sec::Seek;
            let is_hash = *sec == Sec::Hash;
            let v = sec_nodes(&mut p, *sec)?;
            if v.is_empty() {
                return None;
            }
            let i = *idx as usize % v.len();
            // excluded by the property: size of the bottom node of a hash-only or seek section
            // (the scheme authenticates only the sum with its sibling / the hash)
            if (is_seek || is_hash) && i == 0 {
                return None;
            }
            let (index, len, hash) = node_parts(&v[i]);
            v[i] = Node::new(index, hash, add(len, *delta)?);
        }
        Mutation::DropNode { sec, idx } => {
            let v = sec_nodes(&mut p, *sec)?;
            if v.is_empty() {
                return None;
            }
            let i = *idx as usize % v.len();
            v.remove(i);
        }
        Mutation::DupNode { sec, idx } => {
            let v = sec_nodes(&mut p, *sec)?;
            if v.is_empty() {
                return None;
            }
            let i = *idx as usize % v.len();
            let n = v[i].clone();
            v.insert(i, n);
        }
        Mutation::SwapNodes { sec, idx } => {
            let v = sec_nodes(&mut p, *sec)?;
            if v.len() < 2 {
                return None;
            }
            let i = *idx as usize % (v.len() - 1);
            v.swap(i, i + 1);
        }
        Mutation::InsertNode { sec, idx } => {
            let extra = {
                // some true node of the writer's tree
                let j = (*idx as u64 * 2 + 1) % (2 * w.truth.len()).max(1);
                match w.reftree.node(j).or_else(|| w.reftree.node(0)) {
                    Some((h, s)) => Node::new(j, h.to_vec(), s),
                    None => return None,
                }
            };
            let v = sec_nodes(&mut p, *sec)?;
            let i = *idx as usize % (v.len() + 1);
            v.insert(i, extra);
        }
        Mutation::RemoveSection { sec } => match sec {
            Sec::Block => {
                p.block.take()?;
            }
            Sec::Hash => {
                p.hash.take()?;
            }
            Sec::Seek => {
                p.seek.take()?;
            }
            Sec::Upgrade => {
                p.upgrade.take()?;
            }
            Sec::Additional => {
                let u = p.upgrade.as_mut()?;
                if u.additional_nodes.is_empty() {
                    return None;
                }
                u.additional_nodes.clear();
            }
        },
        Mutation::SubstituteBlock { same_len } => {
            let b = p.block.as_mut()?;
            if *same_len {
                if b.value.is_empty() {
                    return None;
                }
                for x in b.value.iter_mut() {
                    *x = x.wrapping_add(0x5b) | 1;
                }
            } else {
                b.value.extend_from_slice(b"forged");
            }
        }
        Mutation::ForeignSignature => {
            let other = crate::world::key_from_seed(w.cfg.key_seed ^ 0xF0F0_F0F0);
            let u = p.upgrade.as_mut()?;
            let len = w.truth.len();
            let signable = w.reftree.signable(len, 0);
            u.signature = other.sign(&signable).to_bytes().to_vec();
        }
        Mutation::StaleSignature => {
            let u = p.upgrade.as_mut()?;
            // the writer's genuine signature over a different length
            let len = w.truth.len();
            let other_len = if len > 1 { len - 1 } else { return None };
            let signable = w.reftree.signable(other_len, 0);
            u.signature = w.key.sign(&signable).to_bytes().to_vec();
        }
        Mutation::ForeignWriter => return None, // built separately (needs a second core)
        Mutation::AddBlockSection { index, copy_hash_nodes } => {
            if p.block.is_some() {
                return None;
            }
            let len = w.truth.len().max(1);
            let idx = match &p.hash {
                // the block whose leaf the hash section is about, when there is one
                Some(h) if *copy_hash_nodes => h.index / 2,
                _ => index % len,
            };
            let nodes = match (&p.hash, copy_hash_nodes) {
                (Some(h), true) => h.nodes.iter().skip(1).cloned().collect(),
                _ => vec![],
            };
            p.block = Some(DataBlock { index: idx, value: b"forged block".to_vec(), nodes });
        }
        Mutation::AddHashSection { delta } => {
            if p.hash.is_some() {
                return None;
            }
            let b = p.block.as_ref()?;
            let idx = add(b.index * 2, *delta)?;
            p.hash = Some(DataHash { index: idx, nodes: b.nodes.clone() });
        }
        Mutation::AddSeekSection { nodes } => {
            if p.seek.is_some() {
                return None;
            }
            let mut v = vec![];
            for k in 0..*nodes {
                let j = (2 * k as u64) % (2 * w.truth.len()).max(1);
                v.push(Node::new(j, crate::rng::Rng::new(j, &[77]).bytes(32), 3));
            }
            p.seek = Some(DataSeek { bytes: 1, nodes: v });
        }
    }
    if &p == honest {
        return None;
    }
    Some(p)
}

/// All single-field alterations applicable to a proof (the systematic set of C04).
pub fn all_mutations(p: &Proof) -> Vec<Mutation> {
    let mut v = vec![];
    if let Some(b) = &p.block {
        let bits = (b.value.len() as u32 * 8).max(1);
        for bit in [0u32, 7, bits / 2, bits.saturating_sub(1)] {
            v.push(Mutation::FlipValue { bit });
        }
        v.push(Mutation::SubstituteBlock { same_len: true });
        v.push(Mutation::SubstituteBlock { same_len: false });
        v.push(Mutation::BlockIndex { delta: 1 });
        v.push(Mutation::BlockIndex { delta: -1 });
    }
    if p.hash.is_some() {
        v.push(Mutation::HashIndex { delta: 1 });
        v.push(Mutation::HashIndex { delta: -1 });
        v.push(Mutation::HashIndex { delta: 2 });
    }
    if p.seek.is_some() {
        v.push(Mutation::SeekBytes { delta: 1 });
        v.push(Mutation::SeekBytes { delta: -1 });
    }
    if p.upgrade.is_some() {
        for d in [1i64, -1] {
            v.push(Mutation::UpgradeStart { delta: d });
            v.push(Mutation::UpgradeLength { delta: d });
        }
        for bit in [0u32, 255, 256, 511] {
            v.push(Mutation::FlipSignature { bit });
        }
        v.push(Mutation::ForeignSignature);
        v.push(Mutation::StaleSignature);
        v.push(Mutation::ForeignWriter);
        v.push(Mutation::SignatureLength { len: 0 });
        v.push(Mutation::SignatureLength { len: 63 });
        v.push(Mutation::SignatureLength { len: 65 });
    }
    v.push(Mutation::Fork { delta: 1 });
    if p.block.is_none() {
        v.push(Mutation::AddBlockSection { index: 0, copy_hash_nodes: true });
        v.push(Mutation::AddBlockSection { index: 1, copy_hash_nodes: false });
        v.push(Mutation::AddBlockSection { index: 3, copy_hash_nodes: false });
    }
    if p.hash.is_none() && p.block.is_some() {
        v.push(Mutation::AddHashSection { delta: 0 });
        v.push(Mutation::AddHashSection { delta: 1 });
    }
    if p.seek.is_none() {
        v.push(Mutation::AddSeekSection { nodes: 1 });
        v.push(Mutation::AddSeekSection { nodes: 2 });
    }
    for sec in SECS {
        let n = match sec {
            Sec::Block => p.block.as_ref().map(|b| b.nodes.len()),
            Sec::Hash => p.hash.as_ref().map(|b| b.nodes.len()),
            Sec::Seek => p.seek.as_ref().map(|b| b.nodes.len()),
            Sec::Upgrade => p.upgrade.as_ref().map(|b| b.nodes.len()),
            Sec::Additional => p.upgrade.as_ref().map(|b| b.additional_nodes.len()),
        };
        let Some(n) = n else { continue };
        v.push(Mutation::RemoveSection { sec });
        v.push(Mutation::InsertNode { sec, idx: 0 });
        v.push(Mutation::InsertNode { sec, idx: n as u32 });
        for idx in 0..n as u32 {
            v.push(Mutation::FlipNodeHash { sec, idx, bit: 3 });
            v.push(Mutation::FlipNodeHash { sec, idx, bit: 250 });
            v.push(Mutation::NodeIndex { sec, idx, delta: 1 });
            v.push(Mutation::NodeIndex { sec, idx, delta: -1 });
            v.push(Mutation::NodeIndex { sec, idx, delta: 2 });
            v.push(Mutation::NodeSize { sec, idx, delta: 1 });
            v.push(Mutation::NodeSize { sec, idx, delta: -1 });
            v.push(Mutation::DropNode { sec, idx });
            v.push(Mutation::DupNode { sec, idx });
            if idx + 1 < n as u32 {
                v.push(Mutation::SwapNodes { sec, idx });
            }
        }
    }
    v
}

/// A self-consistent proof for the same concrete request from a different writer (other key,
/// other block contents, same sizes and count).
fn foreign_proof(w: &World, c: &crate::repl::Concrete, nodes: u64) -> Option<Proof> {
    let other = crate::world::key_from_seed(w.cfg.key_seed ^ 0x0BAD_C0DE);
    let disk = crate::disk::Disk::new();
    let kp = hypercore::PartialKeypair { public: other.verifying_key(), secret: Some(other) };
    let blocks: Vec<Vec<u8>> = w
        .truth
        .blocks
        .iter()
        .map(|b| b.iter().map(|x| x.wrapping_add(0x11) | 1).collect())
        .collect();
    let (rb, rh, rs, ru) = crate::world::mk_request(
        c.block.map(|i| (i, nodes)),
        c.hash.map(|j| (j, nodes)),
        c.seek,
        c.upgrade,
    );
    let g = exec::run(async {
        let mut core = crate::world::open_core(&disk, Some(kp), crate::world::CacheMode::Off).await?;
        if !blocks.is_empty() {
            core.append_batch(&blocks).await?;
        }
        core.create_proof(rb, rh, rs, ru).await
    });
    match Res::from(g) {
        Res::Ok(Some(p)) => Some(p),
        _ => None,
    }
}

/// C04 step: honest proof for `req`, altered, offered to replica n *before* the honest one.
pub fn do_tamper(w: &mut World, n: usize, req: &Req, m: &Mutation) {
    let Some(out) = crate::repl::request_and_create(w, n, req) else { return };
    let Some(honest) = out.proof.clone() else { return };
    offer_mutations(w, n, &out, &honest, std::slice::from_ref(m), req);
}

pub fn do_tamper_all(w: &mut World, n: usize, req: &Req) {
    let Some(out) = crate::repl::request_and_create(w, n, req) else { return };
    let Some(honest) = out.proof.clone() else { return };
    let ms = all_mutations(&honest);
    offer_mutations(w, n, &out, &honest, &ms, req);
}

fn offer_mutations(w: &mut World, n: usize, out: &crate::repl::SyncOutcome, honest: &Proof, ms: &[Mutation], req: &Req) {
  let mut any_accepted = false;
  for m in ms {
    if w.aborted.is_some() || w.nodes[n].core.is_none() {
        return;
    }
    let forged = match m {
        Mutation::ForeignWriter => foreign_proof(w, &out.concrete, out.nodes),
        other => mutate(&honest, other, w),
    };
    if let Some(f) = forged {
        w.stats.tampered += 1;
        let info_before = w.nodes[n].core.as_ref().map(|c| c.info());
        match crate::repl::offer_untrusted(w, n, &f, &format!("{m:?}"), "C04") {
            Some(true) => {
                any_accepted = true;
                w.stats.tampered_accepted += 1;
                let kind = format!("{m:?}");
                let kind = kind.split(|c| c == ' ' || c == '{').next().unwrap_or("").to_string();
                w.stats.probe(&format!("accepted_{kind}"));
                // Some alterations are void (they touch something the verifier has no use for in
                // the replica's current state) and acceptance is judged by truthfulness below. But
                // block bytes, the signature and the fork are ALWAYS checked when present: a proof
                // altered there must be refused in every state.
                if matches!(
                    m,
                    Mutation::FlipValue { .. }
                        | Mutation::SubstituteBlock { .. }
                        | Mutation::FlipSignature { .. }
                        | Mutation::ForeignSignature
                        | Mutation::StaleSignature
                        | Mutation::SignatureLength { .. }
                        | Mutation::Fork { .. }
                ) {
                    w.viol(
                        "C04.forgery-accepted",
                        format!("proof altered by {m:?} was accepted (block bytes, signature and fork are authenticated in every state)"),
                    );
                }
                w.stats.probe("tampered_accepted");
                // accepted: the replica must still be truthful: (length, byte_length) is a state
                // the writer signed, every held block equals the writer's
                if let Some(core) = w.nodes[n].core.as_ref() {
                    let info = core.info();
                    let st = (info.length, info.byte_length);
                    let signed = st == (0, 0)
                        || w.truth.signed.contains(&st)
                        || info_before.as_ref().map(|b| (b.length, b.byte_length)) == Some(st);
                    if !signed {
                        w.viol(
                            "C04.unsigned-state",
                            format!("after accepting altered proof ({m:?}) the replica reports length {} byte_length {}, a state the writer never signed", st.0, st.1),
                        );
                    } else {
                        w.nodes[n].model.length = st.0;
                        w.nodes[n].model.byte_length = st.1;
                    }
                }
                if w.aborted.is_none() && w.nodes[n].core.is_some() {
                    w.scan_and_judge_as(n, &format!("after accepted altered proof {m:?}"), "C04");
                }
            }
            Some(false) => {
                w.stats.tampered_refused += 1;
                // observations unchanged
                if w.aborted.is_none() && w.nodes[n].core.is_some() {
                    w.scan_and_judge_as(n, &format!("after refused altered proof {m:?}"), "C04");
                }
            }
            None => return,
        }
    }
  }
    if w.aborted.is_some() || w.nodes[n].core.is_none() {
        return;
    }
    // the honest proof that follows is still accepted (C04: honest replication can complete).
    // If an altered (but still truthful) variant was accepted it has already done the honest
    // proof's job and moved the replica on, so the honest request is derived afresh.
    let before = w.viols.len();
    let ok = if any_accepted {
        match crate::repl::request_and_create(w, n, req) {
            Some(o2) => match &o2.proof {
                Some(p2) => crate::repl::apply_honest(w, n, p2, &o2.concrete),
                None => true,
            },
            None => w.viols.len() == before,
        }
    } else {
        crate::repl::apply_honest(w, n, honest, &out.concrete)
    };
    if !ok {
        // re-tag: acceptance failure after an alteration is C04's concern
        for v in w.viols[before..].iter_mut() {
            if v.clause == "C03.accept" || v.clause == "C03.create" {
                v.clause = "C04.honest-after".into();
            }
        }
    }
}

// ---------------------------------------------------------------------------------------------
// Structurally arbitrary proofs (C09)

#[derive(Clone, Debug, Serialize, Deserialize, PartialEq, Default)]
pub struct RawNode {
    pub index: u64,
    pub size: u64,
    /// 0 = the true hash of that node if the writer's tree has it, 1 = pseudo-random, 2 = zeros, 3 = short (not 32 bytes)
    pub kind: u8,
    pub salt: u64,
}

#[derive(Clone, Debug, Serialize, Deserialize, PartialEq, Default)]
pub struct RawUpgrade {
    pub start: u64,
    pub length: u64,
    pub nodes: Vec<RawNode>,
    pub additional: Vec<RawNode>,
    /// 0 = writer's valid signature for its current length, 1 = random 64 bytes, 2 = empty, 3 = 10 bytes
    pub sig: u8,
}

#[derive(Clone, Debug, Serialize, Deserialize, PartialEq, Default)]
pub struct RawProofSpec {
    pub fork: u64,
    pub block: Option<(u64, u32, Vec<RawNode>)>,
    pub hash: Option<(u64, Vec<RawNode>)>,
    pub seek: Option<(u64, Vec<RawNode>)>,
    pub upgrade: Option<RawUpgrade>,
}

fn raw_node(w: &World, r: &RawNode) -> Node {
    let hash: Vec<u8> = match r.kind {
        0 => match w.reftree.node(r.index) {
            Some((h, _)) => h.to_vec(),
            None => crate::rng::Rng::new(r.salt, &[r.index]).bytes(32),
        },
        1 => crate::rng::Rng::new(r.salt, &[r.index, 1]).bytes(32),
        2 => vec![0u8; 32],
        _ => vec![1u8; 7],
    };
    let size = if r.kind == 0 {
        w.reftree.node(r.index).map(|x| x.1).unwrap_or(r.size)
    } else {
        r.size
    };
    Node::new(r.index, hash, size)
}

pub fn build_raw(w: &World, s: &RawProofSpec) -> Proof {
    Proof {
        fork: s.fork,
        block: s.block.as_ref().map(|(index, vlen, nodes)| DataBlock {
            index: *index,
            value: match w.truth.blocks.get(*index as usize) {
                Some(b) if *vlen == u32::MAX => b.clone(),
                _ => vec![0xabu8; (*vlen as usize).min(1 << 16)],
            },
            nodes: nodes.iter().map(|n| raw_node(w, n)).collect(),
        }),
        hash: s.hash.as_ref().map(|(index, nodes)| DataHash {
            index: *index,
            nodes: nodes.iter().map(|n| raw_node(w, n)).collect(),
        }),
        seek: s.seek.as_ref().map(|(bytes, nodes)| DataSeek {
            bytes: *bytes,
            nodes: nodes.iter().map(|n| raw_node(w, n)).collect(),
        }),
        upgrade: s.upgrade.as_ref().map(|u| DataUpgrade {
            start: u.start,
            length: u.length,
            nodes: u.nodes.iter().map(|n| raw_node(w, n)).collect(),
            additional_nodes: u.additional.iter().map(|n| raw_node(w, n)).collect(),
            signature: match u.sig {
                0 => {
                    let len = w.truth.len();
                    if len == 0 {
                        vec![0u8; 64]
                    } else {
                        w.key.sign(&w.reftree.signable(len, 0)).to_bytes().to_vec()
                    }
                }
                1 => crate::rng::Rng::new(u.start ^ u.length, &[9]).bytes(64),
                2 => vec![],
                _ => vec![3u8; 10],
            },
        }),
    }
}

pub fn rand_mutation(r: &mut crate::rng::Rng) -> Mutation {
    let sec = *r.pick(&SECS);
    let idx = r.below(6) as u32;
    let d = *r.pick(&[1i64, -1, 1, -1, 2, -2, 7]);
    match r.below(24) {
        0 | 1 => Mutation::FlipValue { bit: r.below(4096) as u32 },
        2 | 3 | 4 => Mutation::FlipNodeHash { sec, idx, bit: r.below(256) as u32 },
        5 => Mutation::FlipSignature { bit: r.below(512) as u32 },
        6 => Mutation::Fork { delta: 1 },
        7 => Mutation::BlockIndex { delta: d },
        8 => Mutation::HashIndex { delta: d },
        9 => Mutation::SeekBytes { delta: d },
        10 => Mutation::UpgradeStart { delta: d },
        11 => Mutation::UpgradeLength { delta: d },
        12 | 13 => Mutation::NodeIndex { sec, idx, delta: d },
        14 | 15 => Mutation::NodeSize { sec, idx, delta: d },
        16 => Mutation::DropNode { sec, idx },
        17 => Mutation::DupNode { sec, idx },
        18 => Mutation::SwapNodes { sec, idx },
        19 => Mutation::InsertNode { sec, idx },
        20 => Mutation::RemoveSection { sec },
        21 => Mutation::SubstituteBlock { same_len: r.chance(1, 2) },
        22 => match r.below(5) {
            0 => Mutation::ForeignSignature,
            1 => Mutation::StaleSignature,
            2 => Mutation::AddBlockSection { index: r.below(16), copy_hash_nodes: r.chance(1, 2) },
            3 => Mutation::AddHashSection { delta: r.below(3) as i64 },
            _ => Mutation::AddSeekSection { nodes: r.range(1, 3) as u32 },
        },
        _ => Mutation::ForeignWriter,
    }
}
