//! Crash-point, torn-write and I/O-fault enumeration over a journalled history (C02 C07 C10 C12).
use crate::harness::{Case, CaseOut, Fault};
use crate::world::{Cfg, Step};
pub fn run_faulted(_case: &Case, _cfg: &Cfg, _steps: &[Step], _fault: &Fault) -> CaseOut {
    CaseOut::default()
}
