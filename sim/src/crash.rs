//! Crash-point, torn-write and I/O-fault enumeration over a journalled history
//! (C02, C07, C10, C12 crash part, C08 recovery part).
//!
//! The history is executed once fault-free on a journalling SimDisk with model snapshots at
//! every call boundary. Then every journal prefix (optionally plus a byte prefix of the next
//! write) is materialised into a fresh disk, reopened with open(true) and scanned; the
//! observation must equal the model snapshot before or after the call that owns the next op.

use crate::disk::{self, Disk, Files, JKind, JOp};
use crate::exec::{self, Guarded};
use crate::gen::G;
use crate::harness::{Body, Case, CaseOut, Fault};
use crate::model::Model;
use crate::rng::Rng;
use crate::world::{open_core, CallSnap, Cfg, Res, ScanMode, Step, Viol, World};
use hypercore::Hypercore;
use crate::merkle::RefTree as RefTreeAlias;

pub struct Obs {
    pub length: u64,
    pub byte_length: u64,
    pub contiguous: u64,
    pub writeable: bool,
    pub fork: u64,
    pub has: Vec<bool>,
    pub get: Vec<Result<Option<Vec<u8>>, String>>,
    pub died: Option<String>,
    pub pk_ok: bool,
}

pub fn observe(core: &mut Option<Hypercore>, upto: u64, pk: &ed25519_dalek::VerifyingKey) -> Obs {
    let c = core.as_ref().unwrap();
    let info = c.info();
    let mut o = Obs {
        length: info.length,
        byte_length: info.byte_length,
        contiguous: info.contiguous_length,
        writeable: info.writeable,
        fork: info.fork,
        has: vec![],
        get: vec![],
        died: None,
        pk_ok: c.key_pair().public == *pk,
    };
    for i in 0..upto {
        let g = exec::guard_sync(|| core.as_ref().unwrap().has(i));
        match g {
            Guarded::Done(h) => o.has.push(h),
            Guarded::Panic(m) | Guarded::Hang(m) => {
                o.died = Some(format!("has({i}) panicked: {m}"));
                return o;
            }
        }
        let mut cc = core.take().unwrap();
        let g = exec::run(async { cc.get(i).await });
        match g {
            Guarded::Done(Ok(v)) => {
                o.get.push(Ok(v));
                *core = Some(cc);
            }
            Guarded::Done(Err(e)) => {
                o.get.push(Err(e.to_string()));
                *core = Some(cc);
            }
            Guarded::Panic(m) | Guarded::Hang(m) => {
                let _ = std::panic::catch_unwind(std::panic::AssertUnwindSafe(move || drop(cc)));
                o.died = Some(format!("get({i}) panicked: {m}"));
                return o;
            }
        }
    }
    o
}

/// None = equal; Some(first difference)
pub fn diff(o: &Obs, m: &Model) -> Option<String> {
    if o.length != m.length {
        return Some(format!("length {} vs {}", o.length, m.length));
    }
    if o.byte_length != m.byte_length {
        return Some(format!("byte_length {} vs {}", o.byte_length, m.byte_length));
    }
    if o.writeable != m.writable {
        return Some(format!("writeable {} vs {}", o.writeable, m.writable));
    }
    if o.fork != m.fork {
        return Some(format!("fork {} vs {}", o.fork, m.fork));
    }
    for i in 0..o.has.len() as u64 {
        if o.has[i as usize] != m.has(i) {
            return Some(format!("has({i}) {} vs {}", o.has[i as usize], m.has(i)));
        }
        match &o.get[i as usize] {
            Ok(v) => {
                if v.as_ref() != m.get(i) {
                    return Some(format!(
                        "get({i}) {} vs {}",
                        crate::world::show_opt(v),
                        crate::world::show_opt(&m.get(i).cloned())
                    ));
                }
            }
            Err(e) => return Some(format!("get({i}) failed: {e}")),
        }
    }
    None
}

pub struct Base {
    pub world: World,
    pub journal: Vec<JOp>,
    pub node: usize,
}

fn run_base(cfg: &Cfg, steps: &[Step], node: usize) -> Base {
    let mut cfg = cfg.clone();
    cfg.scan = ScanMode::None;
    let mut w = World::new(cfg);
    w.create_all();
    w.run_steps(steps);
    let journal = w.nodes[node].disk.lock().journal.clone();
    Base { world: w, journal, node }
}

/// the call that owns journal index k (None if k == |J|)
fn owner<'a>(base: &'a Base, k: usize) -> Option<&'a CallSnap> {
    if k >= base.journal.len() {
        return None;
    }
    let c = base.journal[k].call as usize;
    base.world.calls.get(c)
}

/// model after the last call on the node
fn final_model(base: &Base) -> Model {
    base.world.nodes[base.node].model.clone()
}

pub struct PointResult {
    pub viols: Vec<Viol>,
    pub matched: Option<Model>,
    pub opened: bool,
}

/// cuts for a torn write of n bytes
pub fn tear_cuts(n: usize, r: &mut Rng) -> Vec<usize> {
    let mut v: Vec<usize> = vec![];
    if n <= 1 {
        return v;
    }
    if n <= 64 {
        return (1..n).collect();
    }
    for c in [1usize, 3, 4, 7, 8, 9, 10, 12, 16, 40, 41, 42, 44, 72, 73, 74, 76, 108, 109, 110] {
        v.push(c);
    }
    for back in [1usize, 2, 4, 8, 9, 32, 33, 64, 65] {
        if n > back {
            v.push(n - back);
        }
    }
    let mut m = 512;
    while m < n {
        v.push(m);
        m += 512;
    }
    for _ in 0..8 {
        v.push(1 + r.below((n - 1) as u64) as usize);
    }
    v.retain(|c| *c >= 1 && *c < n);
    v.sort();
    v.dedup();
    v
}

struct PointCtx<'a> {
    base: &'a Base,
    prop_tear: bool,
}

/// Judge one crash point. `files` is the materialised disk.
fn judge_point(
    ctx: &PointCtx<'_>,
    files: Files,
    k: usize,
    tear: Option<usize>,
) -> (PointResult, Option<(Disk, Option<Hypercore>)>) {
    let base = ctx.base;
    let node = base.node;
    let prefix = if ctx.prop_tear { "C07" } else { "C02" };
    let mut viols: Vec<Viol> = vec![];
    let own = owner(base, k);
    let label = own.map(|c| c.label.clone()).unwrap_or_else(|| "end".into());
    let step = own.map(|c| c.step).unwrap_or(-1);
    let at = format!(
        "crash after {k} of {} storage ops{} (next op {}; call in progress: {label}, step {step})",
        base.journal.len(),
        tear.map(|j| format!(" + {j} bytes of the next write")).unwrap_or_default(),
        base.journal.get(k).map(|o| o.brief()).unwrap_or_else(|| "-".into()),
    );
    // allowed models
    let allowed: Vec<Model> = match own {
        None => vec![final_model(base)],
        Some(c) => {
            if k == c.j0 && tear.is_none() {
                vec![c.before.clone()]
            } else if c.before == c.after {
                vec![c.before.clone()]
            } else {
                vec![c.before.clone(), c.after.clone()]
            }
        }
    };
    let in_create = own.map(|c| c.label == "create").unwrap_or(false);
    let in_mro = own.map(|c| c.label == "make_read_only").unwrap_or(false);
    let mut push = |viols: &mut Vec<Viol>, clause: String, msg: String| {
        viols.push(Viol { clause, step, msg });
    };
    let disk = Disk::from_files(files);
    disk.lock().journaling = true;
    let cache = base.world.cfg.cache;
    let g = exec::run(async { open_core(&disk, None, cache).await });
    let r = Res::from(g);
    let core = match r {
        Res::Ok(c) => c,
        Res::Err("EmptyStorage", _) if in_create => {
            // the creating build() had not completed its first header write: nothing exists yet
            return (PointResult { viols, matched: None, opened: false }, None);
        }
        other => {
            let b = crate::world::brief_unit(&other);
            push(&mut viols, format!("{prefix}.open"), format!("{at}: reopen failed: {b}"));
            if in_mro {
                push(&mut viols, "C12.crash".into(), format!("{at}: reopen failed: {b}"));
            }
            return (PointResult { viols, matched: None, opened: false }, None);
        }
    };
    let upto = allowed.iter().map(|m| m.length).max().unwrap_or(0).max(core.info().length.min(4096)) + 2;
    let mut core = Some(core);
    let pk = base.world.key.verifying_key();
    let o = observe(&mut core, upto, &pk);
    if let Some(d) = &o.died {
        push(&mut viols, format!("{prefix}.state"), format!("{at}: recovered core unusable: {d}"));
        return (PointResult { viols, matched: None, opened: true }, None);
    }
    let mut matched: Option<Model> = None;
    let mut diffs = vec![];
    for m in &allowed {
        match diff(&o, m) {
            None => {
                matched = Some(m.clone());
                break;
            }
            Some(d) => diffs.push(d),
        }
    }
    if matched.is_none() {
        let msg = format!(
            "{at}: recovered state is neither before nor after the interrupted call: {}",
            diffs
                .iter()
                .enumerate()
                .map(|(i, d)| format!("[vs {}: {d}]", if allowed.len() == 1 { "required" } else if i == 0 { "before" } else { "after" }))
                .collect::<Vec<_>>()
                .join(" ")
        );
        push(&mut viols, format!("{prefix}.state"), msg.clone());
        if in_mro {
            push(&mut viols, "C12.crash".into(), msg);
        }
    }
    if !o.pk_ok {
        push(&mut viols, "C12.crash".into(), format!("{at}: recovered core has a different public key"));
    }
    if let Some(m) = &matched {
        // C08 recovery clause: has() is part of the state match; contiguous_length too
        let c = m.contiguous();
        if o.contiguous != c {
            push(
                &mut viols,
                "C08.crash-contig".into(),
                format!("{at}: recovered contiguous_length {} but first missing index is {c}", o.contiguous),
            );
        }
    }
    (PointResult { viols, matched, opened: true }, Some((disk, core)))
}

/// generator of a short suffix on the recovered node
pub fn gen_suffix(r: &mut Rng, node: usize, m: &Model, replicas: u8) -> Vec<Step> {
    let mut g = G::new(0x3ff00 + r.below(1 << 12));
    g.len = m.length;
    let n = r.range(3, 5) as usize;
    let mut steps: Vec<Step> = vec![];
    if node == 0 {
        let mix = crate::gen::Mix { append: 5, batch: 2, clear: 3, read: 2, reopen: 2, mro: 0 };
        steps = crate::gen::writer_history(r, &mut g, n, mix);
        if !m.writable {
            steps.retain(|s| !matches!(s, Step::Append { .. } | Step::Batch { .. }));
        }
    } else {
        let _ = replicas;
        for _ in 0..n {
            steps.push(match r.below(6) {
                0 => Step::Reopen { n: node as u8 },
                1 => Step::Get { n: node as u8, index: r.below(m.length + 2) },
                _ => Step::Sync { to: node as u8, req: crate::gen::rand_req(r) },
            });
        }
    }
    let pos = r.below(steps.len() as u64 + 1) as usize;
    steps.insert(pos, Step::Reopen { n: node as u8 });
    steps
}

/// World resumed from a recovered subject node; other nodes are restored from the base
/// world's final disks. Returns None if some node cannot be opened (not judged here).
fn resume(base: &Base, subject_disk: Disk, subject_core: Hypercore, model: Model) -> Option<World> {
    let mut cfg = base.world.cfg.clone();
    cfg.scan = ScanMode::Full;
    let mut w = World::new(cfg);
    w.truth = base.world.truth.clone();
    w.reftree = base.world.reftree.clone();
    if base.node == 0 && model.length < w.truth.len() {
        // the writer recovered to an earlier state: its history ends there, the suffix appends anew
        let l = model.length as usize;
        w.truth.blocks.truncate(l);
        w.truth.offsets.truncate(l + 1);
        w.truth.signed.retain(|s| s.0 <= model.length);
        w.reftree = RefTreeAlias::from_blocks(&w.truth.blocks);
    }
    for n in 0..w.nodes.len() {
        if n == base.node {
            w.nodes[n].disk = subject_disk.clone();
            w.nodes[n].model = model.clone();
        } else {
            let files = base.world.nodes[n].disk.files();
            let d = Disk::from_files(files);
            d.lock().journaling = true;
            let cache = w.cfg.cache;
            let g = exec::run(async { open_core(&d, None, cache).await });
            match Res::from(g) {
                Res::Ok(c) => {
                    w.nodes[n].core = Some(c);
                    w.nodes[n].disk = d;
                    w.nodes[n].model = base.world.nodes[n].model.clone();
                    w.subscribe(n);
                }
                _ => return None,
            }
        }
    }
    w.nodes[base.node].core = Some(subject_core);
    w.subscribe(base.node);
    Some(w)
}

fn is_suffix_clause(c: &str) -> bool {
    c.starts_with("C01.") || c.starts_with("C03.") || c.starts_with("CALL.")
}

/// Run a suffix under the C01 oracle from the matched model; re-tag its violations.
fn run_suffix(
    base: &Base,
    disk: Disk,
    core: Hypercore,
    model: Model,
    suffix: &[Step],
    clause: &str,
    at: &str,
    k2: Option<usize>,
    k2_seed: u64,
    out: &mut CaseOut,
) -> (Vec<Viol>, Option<usize>) {
    let start_files = disk.files();
    {
        let mut st = disk.lock();
        st.journal.clear();
        st.journaling = true;
    }
    let Some(mut w) = resume(base, disk.clone(), core, model) else {
        return (vec![], None);
    };
    let mut used_k2: Option<usize> = None;
    w.run_steps(suffix);
    out.count("suffix_runs", 1);
    let mut v: Vec<Viol> = w
        .viols
        .iter()
        .filter(|v| is_suffix_clause(&v.clause))
        .map(|v| Viol {
            clause: clause.to_string(),
            step: v.step,
            msg: format!("{at}; then suffix step {}: [{}] {}", v.step, v.clause, v.msg),
        })
        .collect();
    // tree / layout judges attached to the suffix world keep their own clause
    for x in w.viols.iter().filter(|v| v.clause.starts_with("C05.") || v.clause.starts_with("C06.")) {
        v.push(Viol { clause: x.clause.clone(), step: x.step, msg: format!("{at}; then suffix step {}: {}", x.step, x.msg) });
    }
    // second crash inside the suffix
    if v.is_empty() && w.aborted.is_none() {
        let j2 = disk.lock().journal.clone();
        let kk = match k2 {
            Some(k) => Some(k.min(j2.len())),
            None if k2_seed != 0 && !j2.is_empty() => {
                Some(Rng::new(k2_seed, &[j2.len() as u64]).below(j2.len() as u64 + 1) as usize)
            }
            _ => None,
        };
        if let Some(kk) = kk {
            used_k2 = Some(kk);
            out.count("double_crash_points", 1);
            let mut files = start_files.clone();
            for op in &j2[..kk] {
                disk::apply(&mut files, op);
            }
            let base2 = Base { journal: j2, node: base.node, world: w };
            let ctx = PointCtx { base: &base2, prop_tear: false };
            let (pr, _) = judge_point(&ctx, files, kk, None);
            for x in pr.viols {
                if x.clause.starts_with("C02.") {
                    v.push(Viol {
                        clause: "C02.double".into(),
                        step: x.step,
                        msg: format!("{at}; second crash inside the suffix: {}", x.msg),
                    });
                }
            }
        }
    }
    (v, used_k2)
}

pub fn run_faulted(case: &Case, cfg: &Cfg, steps: &[Step], fault: &Fault) -> CaseOut {
    match fault {
        Fault::CrashAll { node, tear, suffix_seed, double, sample } => {
            crash_all(case, cfg, steps, *node as usize, *tear, *suffix_seed, *double, *sample)
        }
        Fault::Crash { node, k, tear, suffix, k2 } => {
            crash_one(cfg, steps, *node as usize, *k, *tear, suffix, *k2)
        }
        Fault::FailAll { node, suffix_seed } => fail_all(case, cfg, steps, *node as usize, *suffix_seed),
        Fault::Fail { node, op, suffix } => {
            let mut out = CaseOut::default();
            fail_one(cfg, steps, *node as usize, *op, Some(suffix), 0, &mut out);
            out
        }
        Fault::None => unreachable!(),
    }
}

fn base_out(base: &Base, steps: &[Step]) -> CaseOut {
    let mut out = CaseOut::default();
    out.log_hash = base.world.log.0;
    out.stats = base.world.stats.clone();
    out.states = base.world.distinct_states.clone();
    out.sim_steps = base.world.stats.calls;
    out.nontrivial = steps.iter().any(|s| s.is_mutating());
    out
}

#[allow(clippy::too_many_arguments)]
fn crash_all(
    case: &Case,
    cfg: &Cfg,
    steps: &[Step],
    node: usize,
    tear: bool,
    suffix_seed: u64,
    double: bool,
    sample: u32,
) -> CaseOut {
    let base = run_base(cfg, steps, node);
    let mut out = base_out(&base, steps);
    if let Some(a) = &base.world.aborted {
        // the fault-free history itself failed: that is C01/C03's finding, not judged here
        out.aborted = Some(format!("base history failed: {a}"));
        return out;
    }
    let nj = base.journal.len();
    let mut points: Vec<usize> = (0..=nj).collect();
    let mut r = Rng::new(suffix_seed, &[nj as u64, 77]);
    if sample > 0 && points.len() > sample as usize {
        let mut keep: std::collections::BTreeSet<usize> = Default::default();
        for c in &base.world.calls {
            if c.node as usize == node {
                for p in [c.j0, c.j0 + 1, c.j1.saturating_sub(1), c.j1] {
                    if p <= nj {
                        keep.insert(p);
                    }
                }
            }
        }
        while keep.len() < sample as usize {
            keep.insert(r.below(nj as u64 + 1) as usize);
        }
        points = keep.into_iter().collect();
        points.truncate(sample as usize * 2);
    }
    let ctx = PointCtx { base: &base, prop_tear: tear };
    let mut files: Files = Default::default();
    let mut applied = 0usize;
    let mut log = crate::rng::Digest(out.log_hash);
    for &k in &points {
        crate::exec::wd_touch();
        while applied < k {
            disk::apply(&mut files, &base.journal[applied]);
            applied += 1;
        }
        let mut cuts: Vec<Option<usize>> = vec![];
        if tear {
            if k < nj {
                if let JKind::Write { data, .. } = &base.journal[k].kind {
                    let mut rr = Rng::new(suffix_seed, &[k as u64, 5]);
                    for c in tear_cuts(data.len(), &mut rr) {
                        cuts.push(Some(c));
                    }
                }
            }
        } else {
            cuts.push(None);
        }
        for cut in cuts {
            let mut f = files.clone();
            if let Some(j) = cut {
                disk::apply_torn(&mut f, &base.journal[k], j);
                out.count("torn_writes", 1);
            } else {
                out.count("crash_points", 1);
            }
            let (pr, live) = judge_point(&ctx, f, k, cut);
            log.u64(k as u64);
            log.u64(cut.map(|c| c as u64 + 1).unwrap_or(0));
            log.u64(pr.viols.len() as u64);
            log.u64(pr.matched.as_ref().map(|m| m.digest()).unwrap_or(1));
            if pr.matched.is_some() {
                out.count("recovered_ok", 1);
            }
            let mut suffix_used: Vec<Step> = vec![];
            let mut k2_used: Option<usize> = None;
            let mut viols = pr.viols;
            // suffix on a seeded third of the clean crash points
            if viols.is_empty() && !tear {
                if let (Some(m), Some((d, Some(core)))) = (pr.matched.clone(), live) {
                    let mut sr = Rng::new(suffix_seed, &[k as u64, 9]);
                    if sr.below(3) == 0 {
                        suffix_used = gen_suffix(&mut sr, node, &m, cfg.replicas);
                        let at = format!("crash after {k} of {nj} storage ops, recovered ok");
                        let k2seed = if double { sr.next() | 1 } else { 0 };
                        let (sv, kk) = run_suffix(&base, d, core, m, &suffix_used, "C02.suffix", &at, None, k2seed, &mut out);
                        k2_used = kk;
                        viols.extend(sv);
                    }
                }
            }
            if !viols.is_empty() && out.viols.is_empty() {
                // concretise
                let conc = Case {
                    prop: case.prop.clone(),
                    family: case.family.clone(),
                    run: case.run,
                    body: Body::World {
                        cfg: cfg.clone(),
                        steps: steps.to_vec(),
                        fault: Fault::Crash { node: node as u8, k, tear: cut, suffix: suffix_used.clone(), k2: k2_used },
                    },
                };
                out.concrete = Some(Box::new(conc));
                out.viols = viols;
                out.log_hash = log.0;
                return out;
            }
        }
    }
    out.log_hash = log.0;
    out
}

fn crash_one(
    cfg: &Cfg,
    steps: &[Step],
    node: usize,
    k: usize,
    tear: Option<usize>,
    suffix: &[Step],
    k2: Option<usize>,
) -> CaseOut {
    let base = run_base(cfg, steps, node);
    let mut out = base_out(&base, steps);
    if let Some(a) = &base.world.aborted {
        out.aborted = Some(format!("base history failed: {a}"));
        return out;
    }
    let k = k.min(base.journal.len());
    let files = disk::materialize(&base.journal, k, tear);
    let ctx = PointCtx { base: &base, prop_tear: tear.is_some() };
    let (pr, live) = judge_point(&ctx, files, k, tear);
    out.count(if tear.is_some() { "torn_writes" } else { "crash_points" }, 1);
    let mut viols = pr.viols;
    if viols.is_empty() && !suffix.is_empty() {
        if let (Some(m), Some((d, Some(core)))) = (pr.matched, live) {
            let at = format!("crash after {k} storage ops, recovered ok");
            // replay of a double-crash violation: the second crash point is re-derived the same
            // way the enumeration derived it (seeded by the first crash point)
            let (sv, _) = run_suffix(&base, d, core, m, suffix, "C02.suffix", &at, k2, 0, &mut out);
            viols.extend(sv);
        }
    }
    let mut log = crate::rng::Digest(out.log_hash);
    log.u64(k as u64);
    log.u64(viols.len() as u64);
    out.log_hash = log.0;
    out.viols = viols;
    out
}

// ---------------------------------------------------------------------------------------------
// C10: one injected I/O error at every storage-operation index

fn fail_all(case: &Case, cfg: &Cfg, steps: &[Step], node: usize, suffix_seed: u64) -> CaseOut {
    let base = run_base(cfg, steps, node);
    let mut out = base_out(&base, steps);
    if let Some(a) = &base.world.aborted {
        out.aborted = Some(format!("base history failed: {a}"));
        return out;
    }
    let total_ops = base.world.nodes[node].disk.ops();
    let mut log = crate::rng::Digest(out.log_hash);
    for op in 0..total_ops {
        crate::exec::wd_touch();
        let mut sub = CaseOut::default();
        let suffix = fail_one(cfg, steps, node, op, None, suffix_seed, &mut sub);
        for (k, v) in &sub.counters {
            out.count(k, *v);
        }
        log.u64(op);
        log.u64(sub.viols.len() as u64);
        log.u64(sub.log_hash);
        if !sub.viols.is_empty() {
            let conc = Case {
                prop: case.prop.clone(),
                family: case.family.clone(),
                run: case.run,
                body: Body::World {
                    cfg: cfg.clone(),
                    steps: steps.to_vec(),
                    fault: Fault::Fail { node: node as u8, op, suffix },
                },
            };
            out.concrete = Some(Box::new(conc));
            out.viols = sub.viols;
            out.log_hash = log.0;
            return out;
        }
    }
    out.log_hash = log.0;
    out
}

/// Re-executes the history with an I/O error injected at storage op `op` of `node`.
/// Returns the suffix that was used.
fn fail_one(
    cfg: &Cfg,
    steps: &[Step],
    node: usize,
    op: u64,
    suffix: Option<&Vec<Step>>,
    suffix_seed: u64,
    out: &mut CaseOut,
) -> Vec<Step> {
    let mut cfg2 = cfg.clone();
    cfg2.scan = ScanMode::None;
    let mut w = World::new(cfg2);
    w.stop_on_fault = true;
    w.nodes[node].disk.lock().fail_at = Some(op);
    w.create_all();
    if w.aborted.is_none() {
        w.run_steps(steps);
    }
    out.log_hash = w.log.0;
    let fired = w.nodes[node].disk.lock().fail_fired.clone();
    let Some((_, call_no, what)) = fired else {
        // history diverged before reaching op (cannot happen on a deterministic run)
        out.count("io_fault_not_reached", 1);
        return vec![];
    };
    out.count("io_faults", 1);
    out.count(&format!("io_fault_{}", what.split('.').last().unwrap_or("op")), 1);
    let mut viols: Vec<Viol> = w.viols.iter().filter(|v| v.clause.starts_with("C13.")).cloned().collect();
    let call = w.calls.get(call_no as usize).cloned();
    let Some(call) = call else {
        // fault fired outside any public call (scan): not judged
        return vec![];
    };
    let at = format!(
        "I/O error injected at storage op #{op} ({what}) during {} (step {})",
        call.label, call.step
    );
    if call.crashed {
        viols.push(Viol { clause: "C10.ret".into(), step: call.step, msg: format!("{at}: the call panicked or hung instead of returning an error") });
    } else if call.returned_ok {
        viols.push(Viol { clause: "C10.ret".into(), step: call.step, msg: format!("{at}: the call returned success") });
    }
    // drop the instance, reopen fault-free
    {
        let mut st = w.nodes[node].disk.lock();
        st.fail_at = None;
    }
    let old = w.nodes[node].core.take();
    let _ = std::panic::catch_unwind(std::panic::AssertUnwindSafe(move || drop(old)));
    w.nodes[node].rx.clear();
    let disk = w.nodes[node].disk.clone();
    let cache = w.cfg.cache;
    let g = exec::run(async { open_core(&disk, None, cache).await });
    let r = Res::from(g);
    let in_create = call.label == "create";
    let mut used_suffix: Vec<Step> = vec![];
    match r {
        Res::Ok(core) => {
            let allowed: Vec<Model> = if call.before == call.after {
                vec![call.before.clone()]
            } else {
                vec![call.before.clone(), call.after.clone()]
            };
            let upto = allowed.iter().map(|m| m.length).max().unwrap_or(0) + 2;
            let mut core = Some(core);
            let pk = w.key.verifying_key();
            let o = observe(&mut core, upto, &pk);
            let mut matched = None;
            let mut diffs = vec![];
            if let Some(d) = &o.died {
                viols.push(Viol { clause: "C10.state".into(), step: call.step, msg: format!("{at}: after reopen the core is unusable: {d}") });
            } else {
                for m in &allowed {
                    match diff(&o, m) {
                        None => {
                            matched = Some(m.clone());
                            break;
                        }
                        Some(d) => diffs.push(d),
                    }
                }
                if matched.is_none() {
                    viols.push(Viol {
                        clause: "C10.state".into(),
                        step: call.step,
                        msg: format!("{at}: after reopen the state is neither before nor after the failed call: {diffs:?}"),
                    });
                }
            }
            if let (Some(m), Some(c)) = (matched, core) {
                if viols.is_empty() {
                    let sfx: Vec<Step> = match suffix {
                        Some(s) => s.clone(),
                        None => {
                            let mut sr = Rng::new(suffix_seed, &[op, 3]);
                            if sr.below(2) == 0 {
                                gen_suffix(&mut sr, node, &m, cfg.replicas)
                            } else {
                                vec![]
                            }
                        }
                    };
                    if !sfx.is_empty() {
                        // rebuild a base view for resume(): other nodes from this world's disks
                        let journal = vec![];
                        let basev = Base { world: w, journal, node };
                        let (sv, _) = run_suffix(&basev, disk.clone(), c, m, &sfx, "C10.suffix", &at, None, 0, out);
                        viols.extend(sv);
                        used_suffix = sfx;
                    }
                }
            }
        }
        Res::Err("EmptyStorage", _) if in_create => {}
        other => {
            let b = crate::world::brief_unit(&other);
            viols.push(Viol { clause: "C10.open".into(), step: call.step, msg: format!("{at}: fault-free reopen failed: {b}") });
        }
    }
    out.viols = viols;
    used_suffix
}
