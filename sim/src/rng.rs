//! Seeded PRNG: splitmix64 seeding + xoshiro256**. One stream per (seed, property, run, purpose).

#[derive(Clone, Debug)]
pub struct Rng {
    s: [u64; 4],
}

fn splitmix(x: &mut u64) -> u64 {
    *x = x.wrapping_add(0x9E3779B97F4A7C15);
    let mut z = *x;
    z = (z ^ (z >> 30)).wrapping_mul(0xBF58476D1CE4E5B9);
    z = (z ^ (z >> 27)).wrapping_mul(0x94D049BB133111EB);
    z ^ (z >> 31)
}

pub fn hash_str(s: &str) -> u64 {
    // FNV-1a, deterministic across processes (no RandomState anywhere)
    let mut h: u64 = 0xcbf29ce484222325;
    for b in s.bytes() {
        h ^= b as u64;
        h = h.wrapping_mul(0x100000001b3);
    }
    h
}

impl Rng {
    pub fn new(seed: u64, tags: &[u64]) -> Rng {
        let mut x = seed ^ 0xA5A5_5A5A_DEAD_BEEF;
        for t in tags {
            x = splitmix(&mut x) ^ t.wrapping_mul(0x9E3779B97F4A7C15);
        }
        let mut s = [0u64; 4];
        for v in s.iter_mut() {
            *v = splitmix(&mut x);
        }
        if s == [0, 0, 0, 0] {
            s[0] = 1;
        }
        Rng { s }
    }
    pub fn stream(seed: u64, prop: &str, run: u64, purpose: &str) -> Rng {
        Rng::new(seed, &[hash_str(prop), run, hash_str(purpose)])
    }
    pub fn next(&mut self) -> u64 {
        let r = self.s[1].wrapping_mul(5).rotate_left(7).wrapping_mul(9);
        let t = self.s[1] << 17;
        self.s[2] ^= self.s[0];
        self.s[3] ^= self.s[1];
        self.s[1] ^= self.s[2];
        self.s[0] ^= self.s[3];
        self.s[2] ^= t;
        self.s[3] = self.s[3].rotate_left(45);
        r
    }
    /// uniform in 0..n (n>0)
    pub fn below(&mut self, n: u64) -> u64 {
        debug_assert!(n > 0);
        self.next() % n
    }
    pub fn range(&mut self, lo: u64, hi_incl: u64) -> u64 {
        lo + self.below(hi_incl - lo + 1)
    }
    pub fn chance(&mut self, num: u64, den: u64) -> bool {
        self.below(den) < num
    }
    pub fn pick<'a, T>(&mut self, xs: &'a [T]) -> &'a T {
        &xs[self.below(xs.len() as u64) as usize]
    }
    pub fn bytes(&mut self, n: usize) -> Vec<u8> {
        let mut v = Vec::with_capacity(n);
        while v.len() < n {
            let x = self.next().to_le_bytes();
            for b in x {
                if v.len() < n {
                    v.push(b);
                }
            }
        }
        v
    }
    pub fn shuffle<T>(&mut self, xs: &mut [T]) {
        for i in (1..xs.len()).rev() {
            let j = self.below(i as u64 + 1) as usize;
            xs.swap(i, j);
        }
    }
}

/// FNV-style rolling digest used for event-log hashes (determinism self-check, replay equality).
#[derive(Clone, Debug)]
pub struct Digest(pub u64);
impl Default for Digest {
    fn default() -> Self {
        Digest(0xcbf29ce484222325)
    }
}
impl Digest {
    pub fn bytes(&mut self, b: &[u8]) {
        for x in b {
            self.0 ^= *x as u64;
            self.0 = self.0.wrapping_mul(0x100000001b3);
        }
        self.0 ^= 0xff;
        self.0 = self.0.wrapping_mul(0x100000001b3);
    }
    pub fn u64(&mut self, v: u64) {
        self.bytes(&v.to_le_bytes());
    }
    pub fn str(&mut self, s: &str) {
        self.bytes(s.as_bytes());
    }
}
