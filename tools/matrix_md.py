#!/usr/bin/env python3
"""Turns /tmp/matrix/result.tsv into /verif/seeded/MATRIX.md"""
import json, os, sys
rows=[l.rstrip('\n').split('\t') for l in open(sys.argv[1] if len(sys.argv)>1 else '/tmp/matrix/result.tsv') if l.strip() and l.strip()!='done']
props="C01 C02 C03 C04 C05 C06 C07 C08 C09 C10 C12 C13 C14 C15".split()
out=["# Seeded property-breaking changes x quick checks","",
"Each row: one change under `/verif/seeded/<id>/` (compiles, passes the 36 baseline tests, breaks the property named in its meta.json).",
"Each cell: exit code of `/verif/bin/check <ID> --tier quick` (seed 1) with the change applied to a private copy of the tree: `1` = VIOLATION reported (first clause shown), `0` = held, `2` = harness/build error.",
"**bold** = the check of the property the change was written to break. A `1` in another column means the change genuinely breaks that property too (e.g. a replay bug also breaks crash recovery and the on-disk layout); the baseline row (no change) must be all `0`.","",
"| change | breaks | "+" | ".join(props)+" |","|---|---|"+"|".join(["---"]*len(props))+"|"]
for r in rows:
    cid=r[0]
    if len(r)<3:
        out.append(f"| {cid} | - | {' '.join(r[1:])} |"); continue
    target=''
    mp=f'/verif/seeded/{cid}/meta.json'
    if os.path.exists(mp): target=json.load(open(mp))['breaks_property']
    cells=[]
    for c in r[1:]:
        p,rest=c.split('=',1); code,clause=rest.split(':',1)
        s=code+(f" `{clause}`" if clause else "")
        if p==target: s=f"**{s}**"
        cells.append(s)
    out.append(f"| {cid} | {target or '-'} | "+" | ".join(cells)+" |")
open('/verif/seeded/MATRIX.md','w').write("\n".join(out)+"\n")
print("\n".join(out[-len(rows):]))
