#!/bin/sh
# usage: confirm_mutant.sh <worktree> <mutdir> <name>
# In the scratch worktree: (1) with the patch: existing suite passes, demo fails;
# (2) without the patch: demo passes. Prints a summary line.
W="$1"; M="$2"; N="$3"
cd "$W" || exit 2
git checkout -q -- . 2>/dev/null
rm -f tests/demo_*.rs
cp "$M/demo.rs" tests/demo_$N.rs
export CARGO_TARGET_DIR="$W/target"
git apply "$M/patch.diff" || { echo "$N: patch does not apply"; exit 2; }
cargo test --offline --no-fail-fast $FEATURES > /tmp/confirm_$N.with.log 2>&1
suite_fail=$(grep -E "^test result: FAILED" /tmp/confirm_$N.with.log | wc -l)
passed=$(grep -E "^test result:" /tmp/confirm_$N.with.log | awk '{s+=$4} END {print s}')
demo_with=$(awk "/Running tests\/demo_$N.rs/{f=1} f&&/^test result/{print \$3; exit}" /tmp/confirm_$N.with.log)
compile_err=$(grep -c "^error\[" /tmp/confirm_$N.with.log)
git checkout -q -- src Cargo.toml 2>/dev/null
cargo test --offline $FEATURES --test demo_$N > /tmp/confirm_$N.without.log 2>&1
demo_without=$(grep -m1 "^test result" /tmp/confirm_$N.without.log | awk '{print $3}')
rm -f tests/demo_$N.rs
echo "$N: compile_errors=$compile_err failing_test_binaries_with_patch=$suite_fail total_passed_with_patch=$passed demo_with_patch=$demo_with demo_without_patch=$demo_without"
