#!/usr/bin/env python3
"""Operator-mutation sweep (sensitivity self-check, not a MANIFEST command).
Applies one small syntactic mutation at a time to a PRIVATE copy of the crate (/tmp/matrix/repo),
rebuilds the private copy of hcsim and runs the quick checks until one reports a violation.
Writes /tmp/matrix/sweep.tsv: file:line  operator  result (killed-by=<ID>:<clause> | survived | nocompile).
usage: sweep.py [max_mutants] [seed]"""
import re, subprocess, sys, os, random, time
M='/tmp/matrix'
FILES=['src/core.rs','src/oplog/mod.rs','src/oplog/entry.rs','src/oplog/header.rs','src/tree/merkle_tree.rs',
       'src/tree/merkle_tree_changeset.rs','src/bitfield/dynamic.rs','src/bitfield/fixed.rs','src/storage/mod.rs',
       'src/data/mod.rs','src/crypto/hash.rs','src/replication/shared_core.rs','src/common/cache.rs']
OPS=[(r'(?<![<>=!-])<=(?!=)','<'),(r'(?<![<>=!-])>=(?!=)','>'),(r'(?<![<>=!&|-])<(?![<=])',' <= '),(r'(?<![<>=!-])>(?![>=])',' >= '),
     (r'==','!='),(r'!=','=='),(r'\+ 1\b','+ 0'),(r'- 1\b','- 0'),(r'&&','||'),(r'\|\|','&&'),
     (r'\btrue\b','false'),(r'\bfalse\b','true'),(r'\* 2\b','* 1'),(r'\+=','-='),(r'\.await\?;','.await.ok();'),(r'/ 2\b','/ 1')]
ORDER="C01 C03 C02 C04 C09 C13 C05 C06 C08 C07 C10 C12 C15 C14".split()
def sh(cmd,cwd=None,env=None,timeout=3600):
    return subprocess.run(cmd,shell=True,cwd=cwd,env=env,capture_output=True,text=True,timeout=timeout)
def sites():
    out=[]
    for f in FILES:
        p=f'{M}/repo/{f}'
        if not os.path.exists(p): continue
        lines=open(p).read().split('\n')
        for i,l in enumerate(lines):
            if '#[cfg(test)]' in l: break
            s=l.strip()
            if s.startswith('//') or s.startswith('#[') or 'instrument' in s or s.startswith('use ') : continue
            code=l.split('//')[0]
            # skip generic brackets / arrows / lifetimes
            for k,(pat,rep) in enumerate(OPS):
                for m in re.finditer(pat,code):
                    if pat.startswith(r'(?<![<>=!&|-])<') or pat.startswith(r'(?<![<>=!-])>(?![>=])'):
                        # crude filter: comparison only if surrounded by spaces
                        a=m.start()
                        if not (a>0 and code[a-1]==' ' and a+1<len(code) and code[a+1]==' '): continue
                    if '->' in code[max(0,m.start()-1):m.end()+1] or '=>' in code[max(0,m.start()-1):m.end()+1]: continue
                    out.append((f,i,m.start(),m.end(),rep,pat))
    return out
def main():
    maxn=int(sys.argv[1]) if len(sys.argv)>1 else 100
    seed=int(sys.argv[2]) if len(sys.argv)>2 else 1
    sh(f'git -C {M}/repo checkout -q -- .')
    sh(f'git -C {M}/repo checkout -q --detach $(git -C /repo rev-parse HEAD)')
    sh(f'rsync -a --delete --exclude target --exclude target-nosparse /verif/sim/ {M}/sim/')
    sh(f"sed -i 's#path = \"/repo\"#path = \"{M}/repo\"#' {M}/sim/Cargo.toml")
    os.makedirs(f'{M}/out',exist_ok=True); sh(f'cp /verif/known_findings.json {M}/out/')
    S=sites(); random.Random(seed).shuffle(S); S=S[:maxn]
    res=open(f'{M}/sweep.tsv','a')
    env=dict(os.environ,HCSIM_VERIF_DIR=f'{M}/out')
    for (f,i,a,b,rep,pat) in S:
        p=f'{M}/repo/{f}'
        sh(f'git -C {M}/repo checkout -q -- .')
        lines=open(p).read().split('\n'); orig=lines[i]
        lines[i]=orig[:a]+rep+orig[b:]
        open(p,'w').write('\n'.join(lines))
        tag=f'{f}:{i+1}\t{orig.strip()[:70]!r} -> {rep!r}@{a}'
        r=sh('cargo build --release --offline',cwd=f'{M}/sim')
        if r.returncode!=0:
            res.write(tag+'\tnocompile\n'); res.flush(); continue
        verdict='survived'
        for pid in ORDER:
            if pid=='C14':
                sh('cargo build --release --offline --no-default-features --target-dir target-nosparse',cwd=f'{M}/sim')
            r=sh(f'./target/release/hcsim check {pid} --tier quick',cwd=f'{M}/sim',env=env)
            if r.returncode==1:
                m=re.search(r'clause=(\S+)',r.stdout); verdict=f'killed-by={pid}:{m.group(1) if m else "?"}'; break
            if r.returncode not in (0,1):
                verdict=f'harness-exit-{r.returncode}-in-{pid}'; break
        res.write(tag+'\t'+verdict+'\n'); res.flush()
    sh(f'git -C {M}/repo checkout -q -- .')
    res.write('sweep-done\n'); res.close()
main()
