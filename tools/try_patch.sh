#!/bin/sh
# usage: try_patch.sh <patch.diff> [check ids...]
# Applies a candidate property-breaking change to /repo, runs the quick checks, reverts.
# Prints one line per check: <id> exit=<code> [VIOLATION clause...]
P="$1"; shift
IDS="${*:-C01 C02 C03 C04 C05 C06 C07 C08 C09 C10 C12 C13 C14 C15}"
mkdir -p /tmp/try_verif && cp /verif/known_findings.json /tmp/try_verif/
cd /repo || exit 2
if ! git diff --quiet; then echo "repo dirty"; exit 2; fi
if ! git apply "$P"; then echo "patch does not apply"; exit 2; fi
for id in $IDS; do
    out=$(HCSIM_VERIF_DIR=/tmp/try_verif /verif/bin/check $id --tier ${TIER:-quick} 2>&1)
    code=$?
    det=$(echo "$out" | grep -m2 "violation detail" | cut -c1-260)
    echo "$id exit=$code $det"
done
git -C /repo checkout -- .
