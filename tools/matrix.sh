#!/bin/sh
# Runs every seeded change against every quick check on a private copy of /repo and of the
# simulator (so /repo itself is never touched) and writes /tmp/matrix/result.tsv.
# usage: matrix.sh [ids...]   (default: all of /verif/seeded)
set -u
M=/tmp/matrix
mkdir -p $M/out
if [ ! -d $M/repo ]; then git -C /repo worktree add --detach $M/repo HEAD >/dev/null 2>&1 || exit 2; fi
git -C $M/repo checkout -q --detach $(git -C /repo rev-parse HEAD) && git -C $M/repo checkout -q -- .
mkdir -p $M/sim
rsync -a --delete --exclude target --exclude target-nosparse /verif/sim/ $M/sim/
sed -i "s#path = \"/repo\"#path = \"$M/repo\"#" $M/sim/Cargo.toml
cp /verif/known_findings.json $M/out/
IDS="${*:-$(ls /verif/seeded | grep -v MATRIX)}"
PROPS="C01 C02 C03 C04 C05 C06 C07 C08 C09 C10 C12 C13 C14 C15"
: > $M/result.tsv
for id in baseline $IDS; do
    git -C $M/repo checkout -q -- .
    if [ "$id" != baseline ]; then
        git -C $M/repo apply /verif/seeded/$id/patch.diff || { echo "$id apply-failed" >> $M/result.tsv; continue; }
    fi
    (cd $M/sim && cargo build --release --offline >/dev/null 2>&1 && cargo build --release --offline --no-default-features --target-dir target-nosparse >/dev/null 2>&1) || { echo "$id build-failed" >> $M/result.tsv; continue; }
    line="$id"
    for p in $PROPS; do
        out=$(cd $M/sim && HCSIM_VERIF_DIR=$M/out ./target/release/hcsim check $p --tier quick 2>&1)
        code=$?
        clause=$(echo "$out" | grep -m1 "violation detail" | sed 's/.*clause=\([^ ]*\).*/\1/')
        line="$line	$p=$code:$clause"
    done
    echo "$line" >> $M/result.tsv
done
git -C $M/repo checkout -q -- .
echo done >> $M/result.tsv
