#!/usr/bin/env python3
"""Regenerates /verif/MANIFEST.json from the table below and validates it."""
import json, subprocess
props=[json.loads(l) for l in open('/verif/properties.jsonl')]
T={
 "C01":("exploration","§4 C01","seeded deterministic simulation of operation traces against a list model (bounded sweep + seeded + large)",
   "Every return value and a full scan after every mutating step must equal an append-only list model, across clean close/reopen at any step; short traces are swept exhaustively over a 9-letter alphabet, long ones are seeded, a large family crosses bitfield page boundaries. Sampling, not proof.",
   "SimDisk mirrors the stock backends' RandomAccess semantics; Ed25519/BLAKE2b trusted"),
 "C02":("fault_enumeration","§4 C02","deterministic simulation with crash injection at every journal prefix (all crash points of each explored history)",
   "For every explored history every prefix of the storage-operation journal is materialised, reopened and compared with the before/after model snapshots of the interrupted call; recovered cores then run a suffix under the C01 oracle (and a second crash in the thorough tier). Complete over crash points per history, sampled over histories.",
   "storage operations atomic and persisted in issue order (the property's stated premise)"),
 "C03":("exploration","§4 C03","deterministic simulation of writer/replica clusters: strict request orders plus a discrete-event faulty network with crash-restart; bounded liveness after faults stop",
   "Honest requests derived from the replica's current state must be served and accepted and leave the replica truthful; under drop/duplicate/reorder/delay/partition/crash-restart every delivery keeps the replica truthful and after the last fault replicas complete within a stated number of rounds.",
   "replicator/retry logic is harness code; one genuine gap (hash request straddling the replica length) is listed in known_findings.json"),
 "C04":("exploration","§4 C04","deterministic simulation with message tampering: systematic single-field alterations and forgeries injected before each honest proof",
   "Refused altered proofs must leave storage bytes and observations unchanged; accepted ones must leave a state the writer signed with truthful blocks; honest replication still completes.",
   "Ed25519/BLAKE2b trusted; numeric fields < 2^40"),
 "C05":("exploration","§4 C05","simulation runs judged by an independent Merkle/signature reference implementation over raw stores and proofs",
   "Every persisted tree node, header root hash, stored/served signature and proof node is compared with an independent implementation of the Hypercore v10 scheme for all lengths 0..130 and seeded longer logs, including after reopen and crash recovery.",
   "blake2 and ed25519-dalek primitives are the trusted base"),
 "C06":("exploration","§4 C06","simulation runs judged by an independent JS-layout reader; reference JS-layout writer with foreign-crash faults; certified golden hashes",
   "An independent reader of the JavaScript layout must reconstruct the API's state at every operation boundary; storage written by the reference encoder (incl. a foreign process that died mid-batch) must open to the same state; the five-step interop scenario must reproduce 20 certified SHA-256 values.",
   "layout rules transcribed from hypercore 10; the certified hashes are the only direct link to JS available offline"),
 "C07":("fault_enumeration","§4 C07","deterministic simulation with torn-write injection: byte-prefix tears of the write following every crash point",
   "Same oracle as C02 with the in-flight write cut at every byte (<=64 B) or at framing/sector boundaries plus seeded cuts (longer writes).",
   "torn writes are byte prefixes; other operations atomic"),
 "C08":("exploration","§4 C08","invariant judge (has / contiguous_length vs model) attached to large, sparse-replica, reopen and crash-recovery simulations",
   "has(i) and contiguous_length are compared with the model after every step in large writers (8k-70k blocks), replicas holding blocks pages apart, small histories and after crash recovery.",
   "SimDisk mirrors the stock backends"),
 "C09":("exploration","§4 C09","deterministic simulation with a byzantine peer: boundary-value requests, arbitrary and altered proofs under catch_unwind, poll budget and watchdog",
   "No request tuple or proof may panic or hang create_proof / verify_and_apply_proof; honest steps afterwards still match the model.",
   "numeric fields < 2^40; pure CPU loops are caught by a wall-clock watchdog"),
 "C10":("fault_enumeration","§4 C10","deterministic simulation with an injected I/O error at every storage-operation index of each history",
   "The call that issued the failing op must return Err; drop + fault-free reopen must give the before/after state of that call; a suffix then runs under the C01 oracle. Complete over fault positions per history, sampled over histories.",
   "a failing storage op has no effect on the store"),
 "C12":("fault_enumeration","§4 C12","deterministic simulation of make_read_only histories with crash and torn-write enumeration inside the call; raw-file secret scan",
   "NotWritable gate with zero side effects, no secret bytes in any file after make_read_only, reopen read-only with data intact, idempotence, key+open rejected, and every crash/torn point inside make_read_only recovers writable-or-read-only with all data.",
   "storage operations atomic and ordered; secret = the 32-byte Ed25519 seed"),
 "C13":("exploration","§4 C13","simulation runs with 1-3 event subscribers; expected event list per call from the model, incl. refused (tampered) and failing (I/O fault) calls",
   "Per-call exact event sequences for every subscriber and union-of-announced-ranges equals blocks that became available.",
   "receivers are drained after every call (< 32 undrained events)"),
 "C14":("exploration","§4 C14","differential simulation: one trace under SimDisk / real memory / real disk (with and without sparse) x cache off/default/tiny",
   "Observation logs and final file bytes must be identical across arms.",
   "moka maintenance timing is not controlled (affects only cache content); disk arm does real file I/O on tmpfs"),
 "C15":("exploration","§4 C15","controlled-scheduler simulation (DFS / seeded random / PCT) of tasks on a SharedCore with Wing-Gong linearizability checking",
   "Every explored schedule (preemption at every storage op and lock wait) must yield a history linearizable against sequential models; created proofs must carry the signature of the length at their linearisation point.",
   "single OS thread; async-lock and Arc trusted; histories <= 16 ops"),
}
checks=[]
for p in props:
    pid=p["id"]
    if pid not in T: continue
    lvl,ref,tech,text,note=T[pid]
    checks.append({"property_id":pid,
      "quick_cmd":f"/verif/bin/check {pid} --tier quick",
      "thorough_cmd":f"/verif/bin/check {pid} --tier thorough",
      "evidence_file":f"/verif/evidence/{pid}.json",
      "replay_cmd_template":"/verif/bin/check replay {path}",
      "engine":"hcsim",
      "level_claimed":{"category":lvl,"text":text,"design_ref":"DESIGN.md "+ref},
      "level_note":note,
      "technique":tech})
m={"version":1,
 "setup_cmd":"cd /verif/sim && cargo build --release --offline && cargo build --release --offline --no-default-features --target-dir target-nosparse",
 "hooks":{"guard":"hypercore_verif","enable":"no hooks: every seam is public API (Storage::open callback, HypercoreBuilder::key_pair, SharedCore futures); hcsim is a separate package with a path dependency on /repo",
          "baseline_off_cmd":"cd /repo && cargo test --workspace --no-fail-fast --offline","source_commits":[],"add_only":True},
 "engines":[{"name":"hcsim","path":"/verif/sim","serves_properties":[c["property_id"] for c in checks],
             "kind_free_text":"deterministic simulator: SimDisk storage seam (journal, crash/torn/IO faults, yields), seeded single-threaded executor, discrete-event network, reference models; drives the real hypercore crate"}],
 "checks":checks,
 "notes":"VERIF_SEED selects the PRNG seed (default 1). Exit 0 held, 1 violation (VIOLATION line), 2 harness/build error. Known findings: /verif/known_findings.json.",
 "not_applicable":[{"property_id":"C11","reason":"pure codec property quantified over inputs only: encode/decode are pure functions of a value or a complete byte slice, with no schedule, clock, storage, peer state or in-flight interruption for a simulator to own (DESIGN.md §8)"}]}
json.dump(m,open('/verif/MANIFEST.json','w'),indent=1)
import jsonschema
jsonschema.validate(m,json.load(open('/root/.vp/MANIFEST.schema.json')))
print("manifest ok,",len(checks),"checks")
